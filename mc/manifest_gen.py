"""Generates /verif/MANIFEST.json from the table below (so that it is always schema-valid).

    /venv/bin/python -m mc.manifest_gen
"""
import json
import os

VERIF = os.path.dirname(os.path.dirname(os.path.abspath(__file__)))
BASELINE = ("cd /repo && /venv/bin/python -m pytest -ra -q -p no:cacheprovider --timeout=900 "
            "--continue-on-collection-errors")

# id: (level, technique, text, note, design_ref)
T = {
 "C01": ("model_checking", "exhaustive enumeration of client/strict-server executions (case product x splits x histories)",
         "Every combination of length, API, buffering, write()-split, server answer style and predecessor transfer within the bound is executed on the real SdoClient against a strict CiA 301 acceptor; data and every request frame are judged.",
         "Trusted: the reference server (mc/refs/sdo_server.py, written from CiA 301) and the SimBus. Lengths > 64 only for single writes and 1-cut splits (thorough).", "2/C01"),
 "C02": ("model_checking", "explicit-state BFS over request-frame histories of the real SdoServer + value/source matrix",
         "All request-frame histories up to depth 4 (quick) / 6 (thorough) from a fresh node, globally de-duplicated on the real server's state (level-synchronous parallel BFS), the reference judgement stepped in lock-step, a strict reference client probing every reached state; plus the exhaustive value-source/type/length matrix.",
         "Trusted: reference client and frame grammar (mc/refs). Depth-bounded (no closure: buffers grow).", "2/C02"),
 "C03": ("model_checking", "exhaustive value enumeration + deviation-bounded exhaustive schedule exploration of client/dispatcher/noise threads on the real code",
         "All 8/16-bit values, boundary sets of the wider types, real grid, strings 0..N through RemoteNode -> bus -> LocalNode and back; the threaded delivery paths are explored over all schedules with at most D departures from the default schedule (D=1 quick, 2 thorough) under a cooperative scheduler that owns every thread.",
         "Trusted: mc/vsched scheduler (scheduling points at virtual lock/queue/bus operations and interposed attributes). python-can's own notifier thread is outside the bound.", "2/C03"),
 "C04": ("exploration", "exhaustive enumeration of the stated value and byte-pattern sets against a reference codec",
         "Complete enumeration of all 8/16-bit values, +-2^k+d boundary sets, all byte strings of length 0..9 over a 5-letter alphabet, the real grid and the ASCII/BMP ranges.",
         "Trusted: int.to_bytes/struct on the reference side. 'Random values' of the wider types are replaced by the boundary sets.", "2/C04"),
 "C05": ("exploration", "exhaustive enumeration of PDO layouts x field values x initial frames against a 64-bit bit-field model",
         "All layouts of up to 3 fields from the full field alphabet and up to 8 fields from the reduced one, all 2^len values of sub-byte fields, three initial frame contents, read and write judged bit-exactly.",
         "Trusted: mc/refs/bits.py. Fields > 8 bits use boundary values.", "2/C05"),
 "C06": ("model_checking", "BFS over histories placing every refusal kind among successful transfers on the real server",
         "Every refusal kind x entry kind x access x type x length, each placed in histories up to the depth bound; abort code, multiplexer, store and callback log are compared with the reference after every step.",
         "Trusted: reference client, CiA 301 abort-code table in mc/refs/cia301.py.", "2/C06"),
 "C07": ("fault_enumeration", "choice-point DFS: every protocol step x every disturbance kind, deviation bound 1 (2 thorough), then a follow-up transfer",
         "Each response delivery is a choice point with the alternatives lost/abort/toggle/scs/mux/duplicate/stale; all executions with at most D deviations are run to completion against the real and the reference server.",
         "Trusted: fault layer and reference server. Disturbances the protocol cannot detect are excluded by rule and counted.", "2/C07"),
 "C08": ("exploration", "exhaustive enumeration of a document grammar written by an independent EDS writer",
         "Full product of object kind x data type x default x limits with the remaining spelling dimensions rotated; imported dictionary compared attribute-wise with the plain-dict model.",
         "Trusted: mc/refs/eds_writer.py. Octal spellings, sparse name lists, duplicate names and EPF are outside.", "2/C08"),
 "C09": ("model_checking", "enumeration of PDO configurations x prior device states against a strict ordering-checking device model",
         "Every configuration in the alphabet is saved to a strict device in each prior state, the write log is checked against the four ordering rules, and a fresh node reads the device back.",
         "Trusted: mc/refs/pdo_device.py (CiA 301 PDO parameter rules).", "2/C09"),
 "C10": ("model_checking", "explicit-state BFS to closure over subscribe/unsubscribe/node operations with a reference multimap",
         "All reachable subscription states of the small id/callback/node pool (closure), with every notify evaluated in every state; all 2048 11-bit ids for scanner and frame format.",
         "Trusted: reference multimap. A third CAN id is explored to a depth only.", "2/C10"),
 "C11": ("model_checking", "explicit-state BFS (closure in the thorough tier) over command/heartbeat sequences on a master+slave bus; preemption-bounded schedule exploration of the waits with a line-level cross-check",
         "All event sequences up to the depth bound over the command/name/heartbeat alphabet with master and slave compared with the CiA 301 table after every step; wait_for_heartbeat/bootup explored over all schedules up to the preemption bound.",
         "Trusted: mc/refs/nmt.py table; timeouts long compared with scheduling delays.", "2/C11"),
 "C12": ("fault_enumeration", "choice-point DFS over lost segments (deviation bound 2) x block-size plans x CRC negotiation",
         "Every length/plan/CRC case undisturbed, every single and every double segment loss (including retransmitted ones) against the strict block server.",
         "Trusted: reference block server (mc/refs/sdo_server.py), bitwise CRC-16.", "2/C12"),
 "C13": ("fault_enumeration", "choice-point DFS over lost/flipped/duplicated segments and end-frame faults (deviation bound 2)",
         "Every length with and without CRC; every single fault position and kind, pairs for lengths <= 64.",
         "Trusted: reference block-upload server; CRC collisions and bit flips without CRC are excluded by rule.", "2/C13"),
 "C14": ("exploration", "exhaustive enumeration of a dictionary grammar, export/import round trip, two-export histories",
         "Full product per variable of type x default x limits (rest rotated), all kinds, both document types, all three destinations.",
         "Trusted: attribute comparison; FileInfo time stamps masked.", "2/C14"),
 "C15": ("model_checking", "explicit-state BFS over producer/consumer operation sequences + preemption-bounded schedule exploration of wait_for_reception with a line-level cross-check",
         "All op sequences up to the depth bound on two nodes sharing a PDO configuration; the waiting reader against the receiving thread over all schedules up to the preemption bound.",
         "Trusted: scheduler; layouts whose producer-side round trip already fails are C05's business and skipped.", "2/C15"),
 "C16": ("model_checking", "enumeration of all EMCY frame histories up to the length bound + all 65536 codes + preemption-bounded schedule exploration of wait() with a line-level cross-check",
         "All frame/reset/callback histories up to the depth bound with log/active compared with reference lists; description table exhaustively; wait() over all schedules up to the preemption bound.",
         "Trusted: mc/refs/emcy.py class table.", "2/C16"),
 "C17": ("model_checking", "explicit-state BFS to closure per producer over the periodic-task registry",
         "All reachable states of each producer's start/stop/update/state alphabet with the task-registry invariant on every state; both task flavours.",
         "Trusted: SimBus task registry.", "2/C17"),
 "C18": ("fault_enumeration", "enumeration of identities + choice-point DFS over every reply x fault",
         "Per-bit identity alphabet against a CiA 305 slave model; every reply position dropped; every service x error code.",
         "Trusted: mc/refs/lss_slave.py. 2^128 identities reduced to the per-bit/per-part alphabet.", "2/C18"),
 "C19": ("model_checking", "choice-point DFS over per-read timing of automatic drive transitions, all (state,target) pairs, all statuswords",
         "All 65536 statuswords; all 8x8 pairs x transport x timing choices against a CiA 402 drive model.",
         "Trusted: mc/refs/drive402.py.", "2/C19"),
 "C20": ("exploration", "exhaustive enumeration of factors x values and all 528 bit ranges x spellings",
         "Every contiguous bit range within 32 bits in each spelling, field values and base values; physical/description views over the boundary sets.",
         "Trusted: integer arithmetic on the reference side.", "2/C20"),
}


def main():
    checks, na = [], []
    for pid in sorted(T):
        level, tech, text, note, ref = T[pid]
        if not os.path.exists(os.path.join(VERIF, "checks", pid.lower() + ".py")):
            na.append({"property_id": pid, "reason": "check designed (DESIGN.md section " + ref +
                       ") but not built yet; not claimed until its machinery exists"})
            continue
        checks.append({
            "property_id": pid,
            "quick_cmd": f"cd /verif && /venv/bin/python -m mc.run {pid} --tier quick",
            "thorough_cmd": f"cd /verif && /venv/bin/python -m mc.run {pid} --tier thorough",
            "evidence_file": f"/verif/evidence/{pid}.json",
            "replay_cmd_template": f"cd /verif && /venv/bin/python -m mc.run {pid} --replay {{path}}",
            "engine": "mc",
            "level_claimed": {"category": level, "text": text, "design_ref": "DESIGN.md " + ref},
            "level_note": note,
            "technique": tech,
        })
    man = {
        "version": 1,
        "setup_cmd": "cd /verif && /venv/bin/python -m compileall -q mc checks && PYTHONPATH=/repo /venv/bin/python -m mc.selftest",
        "hooks": {
            "guard": "CANOPEN_VERIF",
            "enable": "not needed: every seam (time/queue/threading as bound in the canopen modules, the bus, a node's SDO "
                      "transport) is a module or instance attribute replaced by the harness process; /repo has no hook code",
            "baseline_off_cmd": BASELINE,
            "source_commits": [],
            "add_only": True,
        },
        "engines": [{
            "name": "mc", "path": "/verif/mc",
            "serves_properties": [c["property_id"] for c in checks],
            "kind_free_text": "hand-written bounded exhaustive explorers running the real Python code: choice-point DFS with "
                              "deviation bound, explicit-state BFS with canonical states, thread-schedule DFS with preemption "
                              "bound under a cooperative scheduler; reference peers written from CiA 301/305/306/402",
        }],
        "checks": checks,
        "not_applicable": na,
        "notes": "python -m mc.run <ID> --tier quick|thorough; VERIF_SEED permutes enumeration order and payload patterns only. "
                 "Exit 3 + HARNESS-ERROR = machinery lost control (never a VIOLATION). known_findings.json lists recorded/fixed defects.",
    }
    with open(os.path.join(VERIF, "MANIFEST.json"), "w") as f:
        json.dump(man, f, indent=1)
    print("MANIFEST.json:", len(checks), "checks,", len(na), "not yet claimed")


if __name__ == "__main__":
    main()
