"""Known findings: /verif/known_findings.json, never written at run time.

Entry: {"property": "C16", "signature": "...", "status": "known"|"fixed", "commit": "...",
        "witness": "...", "text": "..."}
Only entries with status "known" and an exactly equal signature suppress a violation.
"""
import json
import os

PATH = os.path.join(os.path.dirname(os.path.dirname(os.path.abspath(__file__))), "known_findings.json")


def load(pid):
    if not os.path.exists(PATH):
        return []
    data = json.load(open(PATH))
    return [e for e in data.get("findings", []) if e.get("property") == pid]


def is_known(entries, sig):
    return any(e.get("status") == "known" and e.get("signature") == sig for e in entries)


def text(entries, sig):
    for e in entries:
        if e.get("signature") == sig:
            return e.get("text", "")
    return ""
