"""Shared harness pieces for the checks that drive the real SdoServer / LocalNode (C02, C06, C03, C07)."""
import struct

from . import simenv
from .refs import codec
from .refs.sdo_refmodel import Obj, RefServer

# plain description of one dictionary entry:
#   dict(index, sub (None = top-level variable), parent kind 'var'|'rec'|'arr', name, type name,
#        access, default (python value or None), value (ParameterValue or None))


def build_od(entries, parents=None):
    """Build a canopen ObjectDictionary from entry descriptions."""
    from canopen.objectdictionary import ODArray, ODRecord, ODVariable, ObjectDictionary, datatypes as dt
    od = ObjectDictionary()
    groups = {}
    for e in entries:
        code = codec.CODES.get(e["type"], e.get("type_code"))
        if e.get("kind", "var") == "var":
            v = ODVariable(e["name"], e["index"])
        else:
            g = groups.get(e["index"])
            if g is None:
                cls = ODRecord if e["kind"] == "rec" else ODArray
                g = cls(e.get("parent_name", f"grp{e['index']:04X}"), e["index"])
                groups[e["index"]] = g
                od.add_object(g)
            v = ODVariable(e["name"], e["index"], e["sub"])
        v.data_type = code
        v.access_type = e.get("access", "rw")
        v.default = e.get("default")
        v.value = e.get("value")
        if e.get("kind", "var") == "var":
            od.add_object(v)
        else:
            groups[e["index"]].add_member(v)
    return od


def ref_objects(entries):
    objs = {}
    for e in entries:
        acc = e.get("access", "rw")
        val = e.get("value") if e.get("value") is not None else e.get("default")
        vb = None if val is None else ref_encode(e["type"], val)
        nsize = None
        if e["type"] in codec.INT_TYPES:
            nsize = codec.int_info(e["type"])[0] // 8
        elif e["type"] == "REAL32":
            nsize = 4
        elif e["type"] == "REAL64":
            nsize = 8
        objs[(e["index"], e.get("sub") or 0)] = Obj(readable=("r" in acc or acc == "const"), writable="w" in acc,
                                                    numeric_size=nsize, value=vb)
    return objs


def ref_encode(tname, val):
    if isinstance(val, (bytes, bytearray)):
        return bytes(val)
    return codec.encode(tname, val)


class ServerSim:
    """Real LocalNode + SdoServer on a Network; requests are fed through Network.notify."""

    def __init__(self, entries, node_id=5):
        import canopen
        simenv.new_world()
        self.bus = simenv.SimBus("inline")
        self.net = canopen.Network()
        self.bus.attach(self.net, "server")
        self.node = canopen.LocalNode(node_id, build_od(entries))
        self.net.add_node(self.node)
        self.rx, self.tx = 0x600 + node_id, 0x580 + node_id
        self.ref = RefServer(ref_objects(entries))
        self.exc = None
        self.cb_log = []
        self.node.add_write_callback(self._on_write)

    def _on_write(self, index, subindex, od, data):
        self.cb_log.append((index, subindex, od.index, od.subindex, bytes(data)))

    def send(self, frame):
        """Deliver one request; returns the response frames. Exceptions are recorded and re-raised."""
        n0 = len(self.bus.log)
        self.exc = None
        # the interface hands every received frame over in one re-used buffer (overwritten once notify() returns)
        rx = self.__dict__.setdefault("_rx", bytearray(8))
        rx[:] = bytes(frame)
        try:
            self.net.notify(self.rx, rx, simenv.W.now)
        except Exception as e:  # noqa: BLE001
            self.exc = e
        rx[:] = b"\xEE" * len(rx)
        return [d for (src, cid, d, rem, ext) in self.bus.log[n0:] if cid == self.tx]

    def real_store(self):
        return {(i, s): bytes(v) for i, subs in self.node.data_store.items() for s, v in subs.items()}

    def canon(self):
        s = self.node.sdo
        return (bytes(s._buffer) if s._buffer is not None else None, s._toggle, s._index, s._subindex,
                tuple(sorted(self.real_store().items())), s.last_received_error,
                tuple((k, v) for k, v in sorted(s.__dict__.items())
                      if k not in ("_buffer", "_toggle", "_index", "_subindex", "last_received_error", "od", "_node",
                                   "network", "rx_cobid", "tx_cobid") and isinstance(v, (int, str, bool, type(None)))))


class RefLink:
    """Real SdoClient (RemoteNode on its own Network) <-> reference server object, with optional
    per-frame filters in both directions.  Responses are queued and delivered when the client's
    send returns (inline) – the client reads them from its (virtual) response queue."""

    def __init__(self, server, od_entries=(), req_filter=None, resp_filter=None, idle=None, node_id=5):
        import can
        import canopen
        self._can = can
        simenv.new_world()
        self.server = server
        self.req_filter = req_filter      # f(frame) -> bool (deliver to server?)
        self.resp_filter = resp_filter    # f(frame) -> list of frames for the client
        self.client_frames = []
        self.server_frames = []
        self.delay = 0.0                  # a slow server: every answer reaches the client this much later (virtual time)
        self.reuse_rx = False             # an interface that hands every received frame over in ONE re-used bytearray
        self._rx = bytearray(8)
        self.net = canopen.Network()
        self.net.bus = self
        self.channel_info = "reflink"
        self.tx = 0x580 + node_id
        self.rx = 0x600 + node_id
        self.node = self.net.add_node(node_id, build_od(list(od_entries)))
        if idle is not None:
            simenv.W.idle_hooks.append(lambda: idle(self))

    def __bool__(self):
        return True

    def send(self, msg, timeout=None):
        simenv.W.now += 0.00025
        f = bytes(msg.data)
        if msg.arbitration_id != self.rx:
            return
        self.client_frames.append(f)
        if self.req_filter is not None and not self.req_filter(f):
            return
        self.from_server(self.server.on_frame(self.rx, f))

    def from_server(self, replies):
        for cid, r in replies or ():
            r = bytes(r)
            self.server_frames.append(r)
            outs = [r] if self.resp_filter is None else self.resp_filter(r)
            for o in outs:
                if self.delay:
                    simenv.W.at(self.delay, lambda cid=cid, o=o: self.net.listeners[0].on_message_received(
                        self._can.Message(arbitration_id=cid, data=bytes(o), is_extended_id=False, timestamp=simenv.W.now)))
                    continue
                m = self._can.Message(arbitration_id=cid, data=bytes(o), is_extended_id=False, timestamp=simenv.W.now)
                if self.reuse_rx:
                    self._rx[:] = bytes(o)
                    m.data = self._rx
                self.net.listeners[0].on_message_received(m)
                if self.reuse_rx:
                    self._rx[:] = b"\xEE" * len(self._rx)      # the buffer is the interface's again

    def shutdown(self):
        pass
