"""Simulated environment for the canopen model-checking harnesses.

Everything the library could block on or observe from the outside world is
replaced here by a virtual counterpart that the explorers own:

* ``time`` / ``queue`` / ``threading`` *as bound in the canopen modules* are
  replaced by namespaces offering virtual time, a virtual queue, and virtual
  Lock / Condition.  The primitives work in two modes: *sequential* (no
  scheduler active: a blocking call first lets the environment run its idle
  hooks, then jumps virtual time to the deadline) and *scheduled* (a
  ``mc.vsched.Scheduler`` is active: every operation is a scheduling point and
  blocking is visible to the scheduler).
* ``SimBus``: a python-can shaped bus shared by several ``canopen.Network``
  objects and reference devices, with inline or deferred delivery, a registry of
  periodic tasks, and a frame-format check on every frame sent.
"""
import queue as _real_queue
import sys
import threading as _real_threading
import time as _real_time
import types


DEADLINE_AT = None      # wall-clock time after which a run stops exploring (set by mc.run; polled by long loops)


def expired():
    """True once the run's deadline has passed, or this process has grown beyond 3 GB (a changed tree can make a
    worker arbitrarily slow or hungry; exploration loops poll this and stop with a cap instead of hanging the run)."""
    import resource
    import time as _t
    if DEADLINE_AT is not None and _t.time() > DEADLINE_AT:
        return True
    return DEADLINE_AT is not None and resource.getrusage(resource.RUSAGE_SELF).ru_maxrss > 3_000_000


class HarnessError(Exception):
    """The harness lost control (replay divergence, real blocking, a seam that moved)."""


class World:
    """Per-execution virtual world."""

    def __init__(self):
        self.now = 1.0e6
        self.idle_hooks = []     # callables run when the library blocks (sequential mode)
        self.sched = None        # mc.vsched.Scheduler when explorer C is active
        self.in_idle = False
        self.timeouts = 0        # blocking calls that ended by (virtual) time-out
        self.timers = []         # (due, serial, fn): things the environment does at a later virtual time (a slow peer's answer)
        self._tserial = 0

    def at(self, delay, fn):
        """The environment does ``fn()`` ``delay`` seconds from now (sequential mode): it happens while the library is
        blocked in a wait / get / sleep that lasts at least that long, at exactly that virtual time."""
        self._tserial += 1
        self.timers.append((self.now + delay, self._tserial, fn))
        self.timers.sort(key=lambda t: t[:2])

    def wait_until(self, deadline, satisfied):
        """Sequential blocking: run the idle hooks, then fire due timers in time order until ``satisfied()`` or the
        deadline passes. Returns True if satisfied (time = the moment it became true), False at the deadline."""
        self.run_idle()
        if satisfied():
            return True
        while self.timers and (deadline is None or self.timers[0][0] <= deadline):
            due, _, fn = self.timers.pop(0)
            self.now = max(self.now, due)
            fn()
            self.run_idle()
            if satisfied():
                return True
        return False

    def run_idle(self):
        """Let the environment run (deferred deliveries, drive transitions...)."""
        if self.in_idle:
            return
        self.in_idle = True
        try:
            for h in list(self.idle_hooks):
                h()
        finally:
            self.in_idle = False


W = World()


def new_world():
    global W
    W = World()
    return W


def _sched():
    s = W.sched
    if s is not None and s.controlled():
        return s
    return None


# ------------------------------------------------------------------ time
class _VTime:
    @staticmethod
    def time():
        return W.now

    @staticmethod
    def monotonic():
        return W.now

    @staticmethod
    def perf_counter():
        return W.now

    @staticmethod
    def sleep(d):
        s = _sched()
        if s is not None:
            s.block(("sleep", id(object())), d)
            return
        end = W.now + max(d, 0.0)
        W.wait_until(end, lambda: False)
        W.now = max(W.now, end)

    # passthrough used by logging etc. never needed; keep struct_time helpers
    strftime = staticmethod(_real_time.strftime)
    gmtime = staticmethod(_real_time.gmtime)
    localtime = staticmethod(_real_time.localtime)


VTIME = _VTime()


# ------------------------------------------------------------------ queue
class VQueue:
    def __init__(self, maxsize=0):
        self.items = []

    def put(self, x, block=True, timeout=None):
        s = _sched()
        if s is not None:
            s.point(("q.put", id(self)))
        self.items.append(x)
        if W.sched is not None:
            W.sched.wake(self)

    def put_nowait(self, x):
        self.put(x)

    def empty(self):
        s = _sched()
        if s is not None:
            s.point(("q.empty", id(self)))
        return not self.items

    def qsize(self):
        return len(self.items)

    def get(self, block=True, timeout=None):
        s = _sched()
        if s is not None:
            s.point(("q.get", id(self)))
            while not self.items:
                if not block:
                    raise _real_queue.Empty
                if not s.block(self, timeout):
                    raise _real_queue.Empty
            return self.items.pop(0)
        if self.items:
            return self.items.pop(0)
        if not block:
            raise _real_queue.Empty
        end = None if timeout is None else W.now + max(timeout, 0.0)
        if W.wait_until(end, lambda: bool(self.items)):
            return self.items.pop(0)
        if timeout is None:
            raise HarnessError("sequential get() without timeout would block forever")
        W.now = max(W.now, end)
        W.timeouts += 1
        raise _real_queue.Empty

    def get_nowait(self):
        return self.get(block=False)


VQUEUE_NS = types.SimpleNamespace(Queue=VQueue, Empty=_real_queue.Empty, Full=_real_queue.Full,
                                  __name__="queue(virtual)")


# ------------------------------------------------------------------ threading
class VLock:
    def __init__(self):
        self.owner = None
        self.count = 0

    def acquire(self, blocking=True, timeout=-1):
        s = _sched()
        if s is None:
            self.count += 1
            return True
        s.point(("lock.acq", id(self)))
        me = s.cur
        while self.owner is not None and self.owner is not me:
            s.block(self, None)
        self.owner = me
        self.count += 1
        return True

    def release(self):
        s = _sched()
        self.count -= 1
        if s is None:
            return
        if self.count == 0:
            self.owner = None
            s.wake(self)
        s.point(("lock.rel", id(self)))

    def locked(self):
        return self.count > 0

    def __enter__(self):
        return self.acquire()

    def __exit__(self, *a):
        self.release()


class VCondition:
    def __init__(self, lock=None):
        self.lock = lock or VLock()
        self.waiters = []
        self.gen = 0

    def __enter__(self):
        return self.lock.acquire()

    def __exit__(self, *a):
        self.lock.release()

    def acquire(self, *a, **k):
        return self.lock.acquire(*a, **k)

    def release(self):
        self.lock.release()

    def wait(self, timeout=None):
        s = _sched()
        if s is None:
            gen = self.gen
            end = None if timeout is None else W.now + max(timeout, 0.0)
            if W.wait_until(end, lambda: self.gen != gen):
                return True
            if timeout is None:
                raise HarnessError("sequential wait() without timeout would block forever")
            W.now = max(W.now, end)
            W.timeouts += 1
            return False
        me = s.cur
        cnt = self.lock.count
        self.lock.count = 0
        self.lock.owner = None
        s.wake(self.lock)
        self.waiters.append(me)
        s.note(("wait-enter", me.name))
        ok = s.block(self, timeout)
        s.note(("wait-exit", me.name, "notified" if ok else "timeout"))
        if me in self.waiters:
            self.waiters.remove(me)
        while self.lock.owner is not None:
            s.block(self.lock, None)
        self.lock.owner = me
        self.lock.count = cnt
        return ok

    def wait_for(self, predicate, timeout=None):
        end = None if timeout is None else W.now + timeout
        result = predicate()
        while not result:
            remaining = None
            if end is not None:
                remaining = end - W.now
                if remaining <= 0:
                    break
            self.wait(remaining)
            result = predicate()
        return result

    def notify_all(self):
        self.gen += 1
        s = W.sched
        if s is None:
            return
        for t in list(self.waiters):
            self.waiters.remove(t)
            s.wake_thread(t)

    def notify(self, n=1):
        self.gen += 1
        s = W.sched
        if s is None:
            return
        for t in list(self.waiters)[:n]:
            self.waiters.remove(t)
            s.wake_thread(t)

    notifyAll = notify_all


VTHREADING_NS = types.SimpleNamespace(
    Lock=VLock, RLock=VLock, Condition=VCondition,
    Thread=_real_threading.Thread, current_thread=_real_threading.current_thread,
    Event=_real_threading.Event, __name__="threading(virtual)")


# ------------------------------------------------------------------ patching
# (module, attribute) pairs that must exist *as modules* in the canopen tree: the seams.
SEAMS = [
    ("canopen.sdo.client", "queue"), ("canopen.sdo.client", "time"),
    ("canopen.lss", "queue"), ("canopen.lss", "time"),
    ("canopen.nmt", "threading"), ("canopen.nmt", "time"),
    ("canopen.emcy", "threading"), ("canopen.emcy", "time"),
    ("canopen.pdo.base", "threading"),
    ("canopen.network", "threading"),
    ("canopen.profiles.p402", "time"),
    ("canopen.timestamp", "time"),
]
_VIRTUAL = {"time": VTIME, "queue": VQUEUE_NS, "threading": VTHREADING_NS}
_patched = False


def patch_modules():
    """Replace time/queue/threading as seen by the canopen modules. Idempotent."""
    global _patched
    if _patched:
        return
    import importlib
    real = {"time": _real_time, "queue": _real_queue, "threading": _real_threading}
    for modname, attr in SEAMS:
        mod = importlib.import_module(modname)
        cur = getattr(mod, attr, None)
        if cur is not real[attr]:
            raise HarnessError(f"seam moved: {modname}.{attr} is {cur!r}, not the {attr} module")
        setattr(mod, attr, _VIRTUAL[attr])
    # modules of the tree that use these names without being listed would bypass the seam
    for name, mod in list(sys.modules.items()):
        if not name.startswith("canopen") or mod is None:
            continue
        for attr in ("time", "queue", "threading"):
            cur = getattr(mod, attr, None)
            if cur is real[attr] and (name, attr) not in SEAMS:
                raise HarnessError(f"unlisted seam: {name}.{attr}")
        for attr in ("sleep", "monotonic", "Queue", "Condition", "Lock"):
            cur = mod.__dict__.get(attr)
            if cur is not None and getattr(cur, "__module__", "") in ("time", "queue", "threading", "_thread"):
                raise HarnessError(f"direct import bypasses the seam: {name}.{attr}")
    _patched = True


# ------------------------------------------------------------------ bus
class FrameFormatError(Exception):
    pass


class PeriodicTask:
    """What python-can returns from bus.send_periodic; kept in the bus registry."""

    def __init__(self, bus, msg, period):
        self.bus = bus
        # like a real backend the task serialises the frame when it is created (no aliasing of the caller's buffer)
        self.msg = bus._copy(msg)
        self.period = period
        self.stopped = False
        self.serial = len(bus.tasks)

    def stop(self):
        if self.stopped:
            # like python-can's socketcan backend: stopping a task that is not running is an error
            raise self.bus._can.CanOperationError("the cyclic task was already stopped")
        self.stopped = True

    def view(self):
        return (self.msg.arbitration_id, bytes(self.msg.data), self.period,
                bool(self.msg.is_remote_frame), bool(self.msg.is_extended_id))


class ModifiablePeriodicTask(PeriodicTask):
    def modify_data(self, msg):
        if msg.arbitration_id != self.msg.arbitration_id:
            raise ValueError("arbitration id changed")
        self.msg = self.bus._copy(msg)


class Port:
    """The ``bus`` object of one Network."""

    def __init__(self, bus, name):
        self.simbus = bus
        self.name = name
        self.network = None
        self.channel_info = f"sim:{name}"
        self.is_shutdown = False
        self.inbox = []

    def __bool__(self):
        return True

    def send(self, msg, timeout=None):
        self.simbus._send(self, msg)

    def send_periodic(self, msg, period, duration=None, store_task=True, **kw):
        cls = ModifiablePeriodicTask if self.simbus.modifiable_tasks else PeriodicTask
        t = cls(self.simbus, msg, period)
        t.port = self
        self.simbus.tasks.append(t)
        return t

    def shutdown(self):
        self.is_shutdown = True
        if self.simbus.shutdown_stops_tasks:
            for t in self.simbus.tasks:
                if getattr(t, "port", None) is self and not t.stopped:
                    t.stop()


class SimBus:
    stamp = None      # optional mapping from virtual time to the timestamp receivers see (the interface's own clock)
    reuse_rx = False  # hand every received frame over in ONE re-used bytearray (overwritten after the listener returns)

    def __init__(self, mode="inline", modifiable_tasks=True, loopback=False, shutdown_stops_tasks=True):
        import can
        self._can = can
        self.mode = mode              # "inline" | "deferred" | "manual"
        self.modifiable_tasks = modifiable_tasks
        self.ports = []
        self.devices = []             # callables (can_id, data, remote, src) -> iterable of (can_id, data)
        self.pending = []             # (src, msg) not yet delivered (deferred / manual)
        self.log = []                 # every frame sent: (src name, id, data bytes, remote, extended)
        self.tasks = []
        self.filters = []             # callables (src, msg) -> list of msgs to deliver instead
        self.format_errors = []
        self.loopback = loopback
        self.shutdown_stops_tasks = shutdown_stops_tasks
        if mode == "deferred":
            W.idle_hooks.append(self.pump)

    def attach(self, network, name=None):
        port = Port(self, name or f"net{len(self.ports)}")
        port.network = network
        network.bus = port
        self.ports.append(port)
        return port

    def add_device(self, fn, name="dev"):
        self.devices.append((name, fn))

    # -- frame legality at the python-can level
    def _check_format(self, msg):
        errs = []
        if not isinstance(msg, self._can.Message):
            errs.append("not a can.Message")
        else:
            if msg.is_extended_id != (msg.arbitration_id > 0x7FF):
                errs.append(f"extended flag {msg.is_extended_id} for id 0x{msg.arbitration_id:X}")
            if msg.arbitration_id > 0x1FFFFFFF or msg.arbitration_id < 0:
                errs.append("id out of range")
            if len(msg.data) > 8:
                errs.append("more than 8 data bytes")
            if msg.is_error_frame:
                errs.append("error frame sent")
        if errs:
            self.format_errors.append((repr(msg), errs))

    def _send(self, src, msg):
        s = _sched()
        if s is not None:
            s.point(("bus.send", src.name))
        self._check_format(msg)
        # a real interface serialises the frame inside send(): later changes of the caller's buffer cannot reach it
        msg = self._copy(msg)
        msg.timestamp = W.now
        W.now += 0.00025
        self.log.append((src.name, msg.arbitration_id, bytes(msg.data), bool(msg.is_remote_frame),
                         bool(msg.is_extended_id)))
        if self.mode == "inline":
            self._deliver(src, msg)
        elif self.mode == "ports":
            # one receive queue per attached network (each has its own notifier thread in reality)
            for port in self.ports:
                if port is not src:
                    port.inbox.append((src, msg))
                    if W.sched is not None:
                        W.sched.wake(port)
        else:
            self.pending.append((src, msg))
            if W.sched is not None:
                W.sched.wake(self)

    def inject(self, can_id, data, remote=False, error=False, timestamp=None, src_name="inject"):
        """A frame from outside (fault layer, reference peer, noise)."""
        msg = self._can.Message(arbitration_id=can_id, data=bytes(data), is_extended_id=can_id > 0x7FF,
                                is_remote_frame=remote, is_error_frame=error,
                                timestamp=W.now if timestamp is None else timestamp)
        W.now += 0.00025
        self.log.append((src_name, can_id, bytes(data), remote, can_id > 0x7FF))
        self._deliver(None, msg, to_devices=False)

    def _copy(self, msg):
        # what goes onto the wire is the frame's DLC worth of data bytes (a Message whose data was replaced after it
        # was built keeps its old dlc: a real controller then sends the old number of bytes)
        data = bytes(msg.data)
        if not msg.is_remote_frame and msg.dlc != len(data):
            data = data[:msg.dlc].ljust(msg.dlc, b"\0")
        return self._can.Message(arbitration_id=msg.arbitration_id, data=data,
                                 is_extended_id=msg.is_extended_id, is_remote_frame=msg.is_remote_frame,
                                 is_error_frame=msg.is_error_frame, timestamp=msg.timestamp)

    def _deliver(self, src, msg, to_devices=True):
        msgs = [msg]
        for f in self.filters:
            out = []
            for m in msgs:
                out.extend(f(src, m))
            msgs = out
        for m in msgs:
            for port in self.ports:
                if port is src and not self.loopback:
                    continue
                if port.network is None:
                    continue
                c = self._copy(m)
                if self.stamp is not None and c.timestamp is not None:
                    # the interface's own clock (time since it was opened, a monotonic counter, none at all ...)
                    c.timestamp = self.stamp(c.timestamp)
                if self.reuse_rx:
                    rx = self.__dict__.setdefault("_rx", bytearray(8))
                    rx[:] = bytes(c.data)
                    c.data = rx
                port.network.listeners[0].on_message_received(c)
                if self.reuse_rx:
                    rx[:] = b"\xEE" * len(rx)
            if to_devices:
                for name, fn in self.devices:
                    if src is not None and src.name == name:
                        continue
                    replies = fn(m.arbitration_id, bytes(m.data), bool(m.is_remote_frame)) or ()
                    for rid, rdata in replies:
                        self.inject(rid, rdata, src_name=name)

    def pump_port(self, port, n=None):
        """Deliver up to n frames from one network's receive queue (mode "ports")."""
        k = 0
        while port.inbox and (n is None or k < n):
            src, msg = port.inbox.pop(0)
            if port.network is not None:
                port.network.listeners[0].on_message_received(self._copy(msg))
            k += 1
        return k

    def pump(self, n=None):
        """Deliver pending frames (deferred / manual mode). Returns number delivered."""
        k = 0
        while self.pending and (n is None or k < n):
            src, msg = self.pending.pop(0)
            self._deliver(src, msg)
            k += 1
        return k

    def live_tasks(self):
        return [t for t in self.tasks if not t.stopped]


FILLS = ("pattern", "zero", "ff", "80", "nul-tail", "abort-like")


def fill(n, seed=0, kind="pattern"):
    """Payload families for length sweeps: position dependent bytes, constant 00 / FF / 80, a NUL tail, and bytes that
    look like SDO abort / response frames when cut into 7-byte segments."""
    if kind == "zero":
        return bytes(n)
    if kind == "ff":
        return b"\xff" * n
    if kind == "80":
        return b"\x80" * n
    if kind == "nul-tail":
        p = pattern(n, seed)
        k = min(6, n)
        return p[:n - k] + bytes(k)
    if kind == "abort-like":
        unit = bytes([0x80, 0x00, 0x20, 0x00, 0x00, 0x00, 0x04, 0xC1, 0x00, 0x00, 0x00, 0x00, 0x00, 0x00, 0xA2, 0x7F, 0x7F])
        return (unit * (n // len(unit) + 1))[:n]
    return pattern(n, seed)


def pattern(n, seed=0):
    """Position dependent, never-zero payload bytes."""
    return bytes(((i * 37 + 11 + seed) % 255) + 1 for i in range(n))
