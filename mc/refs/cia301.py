"""CiA 301 constants and helpers written from the standard (independent of canopen)."""
import struct


def crc16_ccitt(data, crc=0):
    """CRC-16-CCITT (XMODEM: poly 0x1021, init 0, no reflection), bitwise."""
    for b in data:
        crc ^= b << 8
        for _ in range(8):
            crc = ((crc << 1) ^ 0x1021) & 0xFFFF if crc & 0x8000 else (crc << 1) & 0xFFFF
    return crc


ABORT_TOGGLE = 0x05030000
ABORT_TIMEOUT = 0x05040000
ABORT_CMD = 0x05040001
ABORT_BLKSIZE = 0x05040002
ABORT_SEQNO = 0x05040003
ABORT_CRC = 0x05040004
ABORT_UNSUPPORTED_ACCESS = 0x06010000
ABORT_WO = 0x06010001
ABORT_RO = 0x06010002
ABORT_NO_OBJECT = 0x06020000
ABORT_LEN = 0x06070010
ABORT_LEN_HIGH = 0x06070012
ABORT_LEN_LOW = 0x06070013
ABORT_NO_SUB = 0x06090011
ABORT_NO_DATA = 0x08000024
ABORT_RESOURCE = 0x060A0023
ABORT_GENERAL = 0x08000000
ABORT_DEVICE_STATE = 0x08000022

ALL_ABORT_CODES = [
    0x05030000, 0x05040000, 0x05040001, 0x05040002, 0x05040003, 0x05040004, 0x05040005,
    0x06010000, 0x06010001, 0x06010002, 0x06020000, 0x06040041, 0x06040042, 0x06040043,
    0x06040047, 0x06060000, 0x06070010, 0x06070012, 0x06070013, 0x06090011, 0x06090030,
    0x06090031, 0x06090032, 0x06090036, 0x060A0023, 0x08000000, 0x08000020, 0x08000021,
    0x08000022, 0x08000023, 0x08000024,
]


def mux(index, sub):
    return struct.pack("<HB", index, sub)


def abort_frame(index, sub, code):
    return struct.pack("<BHBL", 0x80, index, sub, code)
