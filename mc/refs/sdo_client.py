"""Strict CiA 301 SDO client stepper, written from the standard (independent of canopen).

``send(frame: bytes) -> list[bytes]`` delivers one request to the server under test and
returns the response frames it emitted.  Every response is parsed strictly; anything the
standard does not allow at that step raises ``ProtocolViolation`` naming the problem.
A server abort is returned as ``Abort(code, mux)`` (a legal reaction), never raised.
"""
import struct


class ProtocolViolation(Exception):
    def __init__(self, kind, text, frame=None):
        super().__init__(f"{kind}: {text}" + (f" [{frame.hex()}]" if frame is not None else ""))
        self.kind = kind


class Abort:
    def __init__(self, code, mux, frame):
        self.code = code
        self.mux = mux
        self.frame = frame

    def __repr__(self):
        return f"Abort(0x{self.code:08X}, mux={self.mux.hex()})"


def _one(responses, what):
    if len(responses) != 1:
        raise ProtocolViolation("count", f"{len(responses)} responses to {what}")
    r = bytes(responses[0])
    if len(r) != 8:
        raise ProtocolViolation("length", f"response of {len(r)} bytes to {what}", r)
    return r


def _abort_of(r):
    if r[0] == 0x80:
        return Abort(struct.unpack_from("<L", r, 4)[0], r[1:4], r)
    return None


def upload(send, index, sub, max_segments=100000):
    """Complete upload. Returns bytes or Abort. Raises ProtocolViolation."""
    mux = struct.pack("<HB", index, sub)
    r = _one(send(bytes([0x40]) + mux + bytes(4)), "initiate upload")
    a = _abort_of(r)
    if a:
        return a
    if r[0] >> 5 != 2:
        raise ProtocolViolation("scs", "initiate upload answered with scs %d" % (r[0] >> 5), r)
    if r[1:4] != mux:
        raise ProtocolViolation("mux", f"initiate upload response for {r[1:4].hex()} instead of {mux.hex()}", r)
    if r[0] & 0x10:
        raise ProtocolViolation("reserved", "reserved bit 4 set in initiate upload response", r)
    e, s, n = r[0] & 2, r[0] & 1, (r[0] >> 2) & 3
    if e:
        if not s and n:
            raise ProtocolViolation("n", "n set without s in expedited upload response", r)
        ln = 4 - n if s else 4
        if any(r[4 + ln:]):
            raise ProtocolViolation("padding", "expedited upload padding not zero", r)
        return ExpData(r[4:4 + ln], sized=bool(s))
    if n:
        raise ProtocolViolation("n", "n set in segmented upload initiate response", r)
    size = struct.unpack_from("<L", r, 4)[0] if s else None
    if not s and any(r[4:]):
        raise ProtocolViolation("padding", "size bytes not zero although s=0", r)
    data = b""
    t = 0
    for _ in range(max_segments):
        r = _one(send(bytes([0x60 | (t << 4)]) + bytes(7)), "upload segment request")
        a = _abort_of(r)
        if a:
            return a
        if r[0] >> 5 != 0:
            raise ProtocolViolation("scs", "upload segment answered with scs %d" % (r[0] >> 5), r)
        if (r[0] >> 4) & 1 != t:
            raise ProtocolViolation("toggle", f"segment toggle {(r[0] >> 4) & 1}, expected {t}", r)
        k, c = (r[0] >> 1) & 7, r[0] & 1
        if any(r[8 - k:]):
            raise ProtocolViolation("padding", "unused segment bytes not zero", r)
        data += r[1:8 - k]
        t ^= 1
        if size is not None and len(data) > size:
            raise ProtocolViolation("size", f"more data ({len(data)}) than announced ({size})", r)
        if c:
            if size is not None and len(data) != size:
                raise ProtocolViolation("size", f"announced {size} bytes, delivered {len(data)}", r)
            return SegData(data, sized=size is not None)
        if size is not None and len(data) == size:
            raise ProtocolViolation("c", "data exhausted but last-segment flag not set", r)
        if k == 7:
            raise ProtocolViolation("empty", "empty non-final segment", r)
    raise ProtocolViolation("endless", "upload does not terminate")


class ExpData(bytes):
    def __new__(cls, b, sized=True):
        o = super().__new__(cls, b)
        o.sized = sized
        o.kind = "exp"
        return o


class SegData(bytes):
    def __new__(cls, b, sized=True):
        o = super().__new__(cls, b)
        o.sized = sized
        o.kind = "seg"
        return o


def download(send, index, sub, data, mode="auto", seg_len=7):
    """Complete download. mode: exp | seg_size | seg_nosize | auto. Returns None or Abort."""
    mux = struct.pack("<HB", index, sub)
    if mode == "auto":
        mode = "exp" if 1 <= len(data) <= 4 else "seg_size"
    if mode == "exp":
        assert 1 <= len(data) <= 4
        r = _one(send(bytes([0x23 | ((4 - len(data)) << 2)]) + mux + data.ljust(4, b"\0")), "expedited download")
        a = _abort_of(r)
        if a:
            return a
        _check_dl_init(r, mux)
        return None
    cmd = 0x21 if mode == "seg_size" else 0x20
    r = _one(send(bytes([cmd]) + mux + (struct.pack("<L", len(data)) if mode == "seg_size" else bytes(4))),
             "initiate segmented download")
    a = _abort_of(r)
    if a:
        return a
    _check_dl_init(r, mux)
    t, pos = 0, 0
    while True:
        chunk = data[pos:pos + seg_len]
        pos += len(chunk)
        c = 1 if pos >= len(data) else 0
        r = _one(send(bytes([(t << 4) | ((7 - len(chunk)) << 1) | c]) + chunk.ljust(7, b"\0")), "download segment")
        a = _abort_of(r)
        if a:
            return a
        if r[0] >> 5 != 1:
            raise ProtocolViolation("scs", "download segment answered with scs %d" % (r[0] >> 5), r)
        if (r[0] >> 4) & 1 != t:
            raise ProtocolViolation("toggle", f"segment ack toggle {(r[0] >> 4) & 1}, expected {t}", r)
        if r[0] & 0x0F or any(r[1:]):
            raise ProtocolViolation("reserved", "reserved bits/bytes set in download segment response", r)
        t ^= 1
        if c:
            return None


def _check_dl_init(r, mux):
    if r[0] >> 5 != 3:
        raise ProtocolViolation("scs", "initiate download answered with scs %d" % (r[0] >> 5), r)
    if r[1:4] != mux:
        raise ProtocolViolation("mux", f"initiate download response for {r[1:4].hex()} instead of {mux.hex()}", r)
    if r[0] & 0x1F or any(r[4:]):
        raise ProtocolViolation("reserved", "reserved bits/bytes set in initiate download response", r)
