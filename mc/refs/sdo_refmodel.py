"""Reference judgement of an SDO *server* under arbitrary request sequences (CiA 301).

``RefServer.judge(request, responses)`` is stepped in lock-step with the server under test.
It returns a list of problems ``(kind, text)`` and updates its own protocol state and its
reference store.  Policy (DESIGN.md C02/C06):

* a request that is *in sequence* (per the reference state) must be answered exactly right;
* a request that is out of sequence must be answered by one well-formed frame that is an
  abort or carries the server command specifier matching the request kind, and must not
  change the store;
* where the standard lets the server choose (refuse a segmented download at initiate or at
  the end; keep or drop a transfer after it sent/received an abort or saw a malformed frame
  = "zombie"), both are accepted and the reference follows the observed choice.
"""
import struct


class Obj:
    def __init__(self, readable=True, writable=True, numeric_size=None, value=None):
        self.readable = readable
        self.writable = writable
        self.numeric_size = numeric_size      # bytes, for fixed-size number types, else None
        self.value = value                    # bytes supplied by default / ParameterValue, or None


class RefServer:
    def __init__(self, objects, indexes=None):
        self.objects = objects                # (index, sub) -> Obj
        self.indexes = indexes if indexes is not None else {k[0] for k in objects}
        self.store = {}                       # (index, sub) -> bytes  (committed downloads)
        self.st = None                        # dict(kind='ul'|'dl', ..., zombie=bool)
        self.last_code_expected = None        # abort code the standard prescribes for the last request (C06)
        self.last_mux_expected = None

    # -------------------------------------------------------------- dictionary semantics
    def current_value(self, key):
        if key in self.store:
            return self.store[key]
        o = self.objects.get(key)
        return None if o is None else o.value

    def read_refusal(self, key):
        """CiA 301 abort code for an upload of key, or None."""
        if key[0] not in self.indexes:
            return 0x06020000
        o = self.objects.get(key)
        if o is None:
            return 0x06090011
        if not o.readable:
            return 0x06010001
        if self.current_value(key) is None:
            return 0x060A0023   # resource not available (0x08000024 'no data available' also accepted by callers)
        return None

    def write_refusal(self, key, data=None):
        if key[0] not in self.indexes:
            return 0x06020000
        o = self.objects.get(key)
        if o is None:
            return 0x06090011
        if not o.writable:
            return 0x06010002
        if data is not None and o.numeric_size is not None and len(data) != o.numeric_size:
            return 0x06070010
        return None

    # -------------------------------------------------------------- judge one step
    def judge(self, f, rs):
        f = bytes(f)
        probs = []
        self.last_code_expected = None
        self.last_mux_expected = None
        if not f:
            # a frame without a command byte is no SDO request: it may be ignored, or refused with one abort (which
            # then ends a running transfer); nothing else
            if len(rs) == 1 and len(rs[0]) == 8 and rs[0][0] == 0x80:
                self.st = None
            elif rs:
                probs.append(("empty-request-answered", f"{[bytes(r).hex() for r in rs]}"))
                self._zombie()
            return probs
        ccs = f[0] >> 5
        if ccs == 4:
            if rs:
                probs.append(("abort-answered", f"{len(rs)} responses to a client abort"))
            self.st = None           # an abort ends the transfer (CiA 301): later segments belong to no transfer
            return probs
        if len(rs) != 1:
            probs.append(("count", f"{len(rs)} responses to request {f.hex()}"))
            self._zombie()
            return probs
        r = bytes(rs[0])
        if len(r) != 8:
            probs.append(("length", f"response of {len(r)} bytes: {r.hex()}"))
            self._zombie()
            return probs
        ab = r[0] == 0x80
        short = len(f) < 8
        f8 = f.ljust(8, b"\0")
        if ccs == 2 or (ccs == 5 and (f[0] & 3) == 0):
            self._init_upload(f, f8, r, ab, short, probs, block=ccs == 5)
        elif ccs == 3:
            self._ul_segment(f, f8, r, ab, short, probs)
        elif ccs == 1:
            self._init_download(f, f8, r, ab, short, probs)
        elif ccs == 0:
            self._dl_segment(f, f8, r, ab, short, probs)
        elif ccs == 5:
            if not ab and r[0] >> 5 not in (2, 6):
                probs.append(("scs", f"block upload sub-command answered with {r.hex()}"))
            self._zombie()
        elif ccs == 6:
            self.last_code_expected = 0x05040001
            if len(f) >= 4 and (f[0] & 1) == 0:
                self.last_mux_expected = f[1:4]
            if not ab and r[0] >> 5 != 5:
                probs.append(("scs", f"block download request answered with {r.hex()}"))
            self._zombie()
        else:
            self.last_code_expected = 0x05040001
            if not ab:
                probs.append(("not-aborted", f"unknown command specifier answered with {r.hex()}"))
            self._zombie()
        if ab:
            self.st = None           # the server's own abort ends the transfer as well (also the refusal of a block request)
        return probs

    def _zombie(self):
        if self.st is not None:
            self.st["zombie"] = True

    # -------------------------------------------------------------- upload
    def _init_upload(self, f, f8, r, ab, short, probs, block=False):
        if len(f) < 4:
            if not ab:
                probs.append(("not-aborted", f"initiate upload without multiplexer answered with {r.hex()}"))
            self._zombie()
            return
        mux = f[1:4]
        key = (mux[0] | mux[1] << 8, mux[2])
        refusal = self.read_refusal(key)
        if refusal is not None:
            self.last_code_expected = refusal
            self.last_mux_expected = mux
            if not ab:
                probs.append(("not-refused", f"upload of {mux.hex()} must be refused (0x{refusal:08X}), got {r.hex()}"))
            elif r[1:4] != mux:
                probs.append(("abort-mux", f"abort for {r[1:4].hex()} instead of {mux.hex()}"))
            self.st = None
            return
        if ab:
            if short:
                self._zombie()
                return
            probs.append(("refused", f"valid upload of {mux.hex()} aborted: {r.hex()}"))
            self.st = None
            return
        if block and r[0] >> 5 == 6:
            self.st = None      # a block-capable server; not modelled further
            return
        data = self.current_value(key)
        if r[0] >> 5 != 2:
            probs.append(("scs", f"initiate upload answered with {r.hex()}"))
            self.st = None
            return
        if r[1:4] != mux:
            probs.append(("mux", f"upload response for {r[1:4].hex()} instead of {mux.hex()}"))
        if r[0] & 0x10:
            probs.append(("reserved", f"reserved bit set in upload response {r.hex()} (value length {len(data)})"))
        e, s, n = r[0] & 2, r[0] & 1, (r[0] >> 2) & 3
        if e:
            ln = 4 - n if s else 4
            if len(data) == 0 or len(data) > 4:
                probs.append(("expedited-size", f"value of {len(data)} bytes answered expedited: {r.hex()}"))
            elif not s and len(data) != 4:
                probs.append(("size-missing", f"{len(data)}-byte value expedited without size: {r.hex()}"))
            elif ln != len(data) or r[4:4 + ln] != data or any(r[4 + ln:]):
                probs.append(("data", f"expedited upload {r.hex()} for value {data.hex()}"))
            self.st = None
        else:
            if n:
                probs.append(("n", f"n set in segmented initiate response {r.hex()}"))
            if not s:
                probs.append(("size-missing", f"segmented upload without size indication {r.hex()}"))
            elif struct.unpack_from("<L", r, 4)[0] != len(data):
                probs.append(("size", f"announced {struct.unpack_from('<L', r, 4)[0]}, value has {len(data)} bytes"))
            self.st = dict(kind="ul", mux=mux, data=data, pos=0, t=0, zombie=False)

    def _ul_segment(self, f, f8, r, ab, short, probs):
        st = self.st
        t = (f[0] >> 4) & 1
        if st is None or st["kind"] != "ul":
            self.last_code_expected = 0x05040001 if st is None else None
            if not ab and r[0] >> 5 != 0:
                probs.append(("scs", f"out-of-sequence upload segment request answered with {r.hex()}"))
            self._zombie()      # a stray request of the other kind: the running transfer may be disturbed or dropped
            return
        if st["zombie"]:
            # transfer state unknowable: accept an abort or any well-formed segment response echoing the toggle
            if ab:
                self.st = None
            elif r[0] >> 5 != 0:
                probs.append(("scs", f"upload segment request answered with {r.hex()}"))
                self.st = None
            else:
                if (r[0] >> 4) & 1 != t:
                    probs.append(("toggle", f"segment response toggle {(r[0] >> 4) & 1}, request had {t}"))
                if r[0] & 1:
                    self.st = None
            return
        if t != st["t"]:
            self.last_code_expected = 0x05030000
            self.last_mux_expected = st["mux"]
            if not ab:
                probs.append(("toggle-not-refused", f"upload segment with wrong toggle answered with {r.hex()}"))
            st["zombie"] = True
            return
        if ab:
            if not st["zombie"] and not short:
                probs.append(("refused", f"in-sequence upload segment request aborted: {r.hex()}"))
            self.st = None
            return
        if r[0] >> 5 != 0:
            probs.append(("scs", f"upload segment request answered with {r.hex()}"))
            self.st = None
            return
        if (r[0] >> 4) & 1 != t:
            probs.append(("toggle", f"segment response toggle {(r[0] >> 4) & 1}, expected {t}"))
        k, c = 7 - ((r[0] >> 1) & 7), r[0] & 1
        rest = st["data"][st["pos"]:]
        if r[1:1 + k] != rest[:k] or any(r[1 + k:]):
            probs.append(("data", f"segment {r.hex()} does not continue the value at {st['pos']} ({rest[:7].hex()})"))
        if k == 0 and len(rest) > 0:
            probs.append(("data", f"empty segment although {len(rest)} bytes remain"))
        st["pos"] += k
        st["t"] ^= 1
        exhausted = st["pos"] >= len(st["data"])
        if bool(c) != exhausted:
            probs.append(("last-flag", f"c={c} with {len(st['data']) - st['pos']} bytes left after {r.hex()}"))
        if c or exhausted:
            self.st = None

    # -------------------------------------------------------------- download
    def _init_download(self, f, f8, r, ab, short, probs):
        if len(f) < 4:
            if not ab:
                probs.append(("not-aborted", f"initiate download without multiplexer answered with {r.hex()}"))
            self._zombie()
            return
        mux = f[1:4]
        key = (mux[0] | mux[1] << 8, mux[2])
        e, s, n = f8[0] & 2, f8[0] & 1, (f8[0] >> 2) & 3
        if e:
            ln = 4 - n if s else 4
            data = f8[4:4 + ln]
            refusal = self.write_refusal(key, data)
            if refusal is not None:
                self.last_code_expected = refusal
                self.last_mux_expected = mux
                if not ab:
                    probs.append(("not-refused", f"download {f.hex()} must be refused (0x{refusal:08X}), got {r.hex()}"))
                    if r[0] >> 5 == 3:
                        pass
                elif r[1:4] != mux:
                    probs.append(("abort-mux", f"abort for {r[1:4].hex()} instead of {mux.hex()}"))
                self.st = None
                return
            if ab:
                if not short:
                    probs.append(("refused", f"valid expedited download {f.hex()} aborted: {r.hex()}"))
                self.st = None
                return
            self._check_dl_ack(r, mux, probs)
            self.store[key] = data
            self.st = None
            return
        refusal = self.write_refusal(key)
        if ab:
            if refusal is None and not short:
                probs.append(("refused", f"valid segmented download initiate {f.hex()} aborted: {r.hex()}"))
            elif r[1:4] != mux:
                probs.append(("abort-mux", f"abort for {r[1:4].hex()} instead of {mux.hex()}"))
            self.last_code_expected = refusal
            self.last_mux_expected = mux
            self.st = None
            return
        self._check_dl_ack(r, mux, probs)
        size = struct.unpack_from("<L", f8, 4)[0] if s else None
        self.st = dict(kind="dl", mux=mux, key=key, buf=b"", t=0, size=size, zombie=False)

    def _check_dl_ack(self, r, mux, probs):
        if r[0] >> 5 != 3:
            probs.append(("scs", f"initiate download answered with {r.hex()}"))
        elif r[1:4] != mux:
            probs.append(("mux", f"download response for {r[1:4].hex()} instead of {mux.hex()}"))
        elif r[0] & 0x1F or any(r[4:]):
            probs.append(("reserved", f"reserved bits/bytes set in {r.hex()}"))

    def _dl_segment(self, f, f8, r, ab, short, probs):
        st = self.st
        t, n, c = (f8[0] >> 4) & 1, (f8[0] >> 1) & 7, f8[0] & 1
        if st is None or st["kind"] != "dl":
            self.last_code_expected = 0x05040001 if st is None else None
            if not ab and r[0] >> 5 != 1:
                probs.append(("scs", f"out-of-sequence download segment answered with {r.hex()}"))
            self._zombie()
            return
        if st["zombie"] and t != st["t"]:
            # toggle phase unknowable after a disturbance: follow the server if it acknowledges; if it aborts it may
            # have dropped the transfer or kept it (both allowed): the transfer stays a zombie
            if ab:
                return
            st["t"] = t
        if t != st["t"]:
            self.last_code_expected = 0x05030000
            self.last_mux_expected = st["mux"]
            if not ab:
                probs.append(("toggle-not-refused", f"download segment with wrong toggle answered with {r.hex()}"))
            st["zombie"] = True
            return
        chunk = f[1:8 - n] if len(f) > 1 else b""
        buf = st["buf"] + chunk
        refusal = None
        if c:
            refusal = self.write_refusal(st["key"], buf)
        if refusal is not None:
            self.last_code_expected = refusal
            self.last_mux_expected = st["mux"]
            if not ab:
                probs.append(("not-refused", f"final segment of a download that must be refused (0x{refusal:08X}) answered {r.hex()}"))
            elif r[1:4] != st["mux"] and not st["zombie"]:
                # (a server that dropped the transfer after an abort / malformed frame no longer knows its multiplexer)
                probs.append(("abort-mux", f"abort for {r[1:4].hex()} instead of {st['mux'].hex()}"))
            self.st = None
            return
        if ab:
            size_mismatch = c and st["size"] is not None and st["size"] != len(buf)
            if not st["zombie"] and not short and not size_mismatch:
                probs.append(("refused", f"in-sequence download segment {f.hex()} aborted: {r.hex()}"))
            self.st = None
            return
        if r[0] >> 5 != 1:
            probs.append(("scs", f"download segment answered with {r.hex()}"))
            self.st = None
            return
        if (r[0] >> 4) & 1 != t:
            probs.append(("toggle", f"segment ack toggle {(r[0] >> 4) & 1}, expected {t}"))
        if r[0] & 0x0F or any(r[1:]):
            probs.append(("reserved", f"reserved bits/bytes set in {r.hex()}"))
        st["buf"] = buf
        st["t"] ^= 1
        if c:
            self.store[st["key"]] = buf
            self.st = None
