"""Reference CiA 301 value codec (independent of canopen): integers, booleans, reals, strings."""
import struct

INT_TYPES = ["INTEGER8", "INTEGER16", "INTEGER24", "INTEGER32", "INTEGER40", "INTEGER48", "INTEGER56", "INTEGER64",
             "UNSIGNED8", "UNSIGNED16", "UNSIGNED24", "UNSIGNED32", "UNSIGNED40", "UNSIGNED48", "UNSIGNED56",
             "UNSIGNED64"]
# CiA 301 data type codes (object 0001h..001Bh)
CODES = {"BOOLEAN": 1, "INTEGER8": 2, "INTEGER16": 3, "INTEGER32": 4, "UNSIGNED8": 5, "UNSIGNED16": 6,
         "UNSIGNED32": 7, "REAL32": 8, "VISIBLE_STRING": 9, "OCTET_STRING": 0xA, "UNICODE_STRING": 0xB,
         "TIME_OF_DAY": 0xC, "TIME_DIFFERENCE": 0xD, "DOMAIN": 0xF, "INTEGER24": 0x10, "REAL64": 0x11,
         "INTEGER40": 0x12, "INTEGER48": 0x13, "INTEGER56": 0x14, "INTEGER64": 0x15, "UNSIGNED24": 0x16,
         "UNSIGNED40": 0x18, "UNSIGNED48": 0x19, "UNSIGNED56": 0x1A, "UNSIGNED64": 0x1B}
NAMES = {v: k for k, v in CODES.items()}


def int_info(name):
    w = int(name.lstrip("INTEGRUSD"))
    return w, name.startswith("INT")


def int_range(name):
    w, signed = int_info(name)
    return (-(1 << (w - 1)), (1 << (w - 1)) - 1) if signed else (0, (1 << w) - 1)


def encode_int(name, x):
    w, signed = int_info(name)
    return x.to_bytes(w // 8, "little", signed=signed)


def decode_int(name, b):
    w, signed = int_info(name)
    assert len(b) == w // 8
    return int.from_bytes(b, "little", signed=signed)


def boundary_values(name, extra=()):
    """In-range boundary set of an integer type."""
    lo, hi = int_range(name)
    w, _ = int_info(name)
    c = {lo, lo + 1, lo + 2, hi, hi - 1, hi - 2, 0, 1, 2}
    for k in range(0, w + 1):
        for d in (-2, -1, 0, 1, 2):
            c.add((1 << k) + d)
            c.add(-(1 << k) + d)
    c |= set(extra)
    return sorted(x for x in c if lo <= x <= hi)


def real_grid_bits(name):
    """Bit patterns: sign x exponent extremes x mantissa {0, 1, all ones, alternating}."""
    if name == "REAL32":
        eb, mb = 8, 23
    else:
        eb, mb = 11, 52
    emax = (1 << eb) - 1
    exps = sorted({0, 1, 2, emax // 2 - 1, emax // 2, emax // 2 + 1, emax - 2, emax - 1, emax})
    mants = sorted({0, 1, 2, (1 << mb) - 1, (1 << mb) - 2, 1 << (mb - 1), int("01" * (mb // 2), 2)})
    out = []
    for s in (0, 1):
        for e in exps:
            for m in mants:
                out.append((s << (eb + mb)) | (e << mb) | m)
    return out


def encode(name, value):
    """Reference encoding of a Python value for a data type name."""
    if name in INT_TYPES:
        return encode_int(name, int(value))
    if name == "BOOLEAN":
        return bytes([1 if value else 0])
    if name == "REAL32":
        return struct.pack("<f", value)
    if name == "REAL64":
        return struct.pack("<d", value)
    if name == "VISIBLE_STRING":
        return value.encode("ascii")
    if name == "UNICODE_STRING":
        return value.encode("utf-16-le")
    return bytes(value)
