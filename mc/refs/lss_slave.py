"""CiA 305 LSS slave model (waiting / configuration state, fast scan, inquire / configure / store).

Strict acceptor of the master's frames: every request must be 8 bytes on 0x7E5 with a known
command specifier, little-endian fields and zero reserved bytes; deviations are recorded in
``violations`` (never raised).  ``on_frame`` returns the reply frames (on 0x7E4).
"""
import struct

WAITING, CONFIGURATION = "waiting", "configuration"


class LssSlave:
    def __init__(self, identity, node_id=0xFF, present=True):
        self.id = list(identity)          # vendor, product, revision, serial
        self.state = WAITING
        self.pos = 0                      # fast-scan position counter (LSS sub)
        self.node_id = node_id            # 0xFF = unconfigured
        self.present = present
        self.sel = [None] * 4
        self.frames = []
        self.violations = []
        self.bit_timing = None
        self.stored = 0
        self.activated = None

    def _reserved(self, f, start, what):
        if any(f[start:]):
            self.violations.append(("reserved", f.hex(), f"reserved bytes not zero in {what}"))

    def on_frame(self, can_id, data, remote=False):
        if can_id != 0x7E5 or remote:
            return []
        f = bytes(data)
        self.frames.append(f)
        if len(f) != 8:
            self.violations.append(("length", f.hex(), f"LSS request of {len(f)} bytes"))
            return []
        if not self.present:
            return []
        cs = f[0]
        out = []
        if cs == 0x51:                                        # fast scan
            idn, bit, sub, nxt = struct.unpack_from("<IBBB", f, 1)
            if self.state != WAITING or self.node_id != 0xFF:
                return []
            if bit == 0x80:
                self.pos = 0
                out = [bytes([0x4F]) + bytes(7)]
            elif bit < 32 and sub < 4 and nxt < 4:
                if self.pos == sub:
                    mask = (0xFFFFFFFF << bit) & 0xFFFFFFFF
                    if (self.id[sub] & mask) == (idn & mask):
                        self.pos = nxt
                        if bit == 0 and nxt < sub:
                            self.state = CONFIGURATION
                        out = [bytes([0x4F]) + bytes(7)]
            else:
                self.violations.append(("fastscan", f.hex(), f"bit check {bit} / sub {sub} / next {nxt} out of range"))
        elif cs == 0x04:                                      # switch state global
            self._reserved(f, 2, "switch state global")
            if f[1] not in (0, 1):
                self.violations.append(("mode", f.hex(), f"switch state global mode {f[1]}"))
            self.state = CONFIGURATION if f[1] == 1 else WAITING
        elif 0x40 <= cs <= 0x43:                              # switch state selective
            self._reserved(f, 5, "switch state selective")
            self.sel[cs - 0x40] = struct.unpack_from("<I", f, 1)[0]
            if cs == 0x43:
                if self.sel == self.id:
                    self.state = CONFIGURATION
                    out = [bytes([0x44]) + bytes(7)]
                self.sel = [None] * 4
        elif cs == 0x5E:
            self._reserved(f, 1, "inquire node id")
            if self.state == CONFIGURATION:
                out = [bytes([0x5E, self.node_id]) + bytes(6)]
        elif 0x5A <= cs <= 0x5D:
            self._reserved(f, 1, "inquire identity")
            if self.state == CONFIGURATION:
                out = [bytes([cs]) + struct.pack("<I", self.id[cs - 0x5A]) + bytes(3)]
        elif cs == 0x11:
            self._reserved(f, 2, "configure node id")
            if self.state == CONFIGURATION:
                ok = 1 <= f[1] <= 127 or f[1] == 255
                if ok:
                    self.node_id = f[1]
                out = [bytes([0x11, 0 if ok else 1]) + bytes(6)]
        elif cs == 0x13:
            self._reserved(f, 3, "configure bit timing")
            if self.state == CONFIGURATION:
                ok = f[1] == 0 and f[2] <= 8 and f[2] != 5
                if ok:
                    self.bit_timing = f[2]
                out = [bytes([0x13, 0 if ok else 1]) + bytes(6)]
        elif cs == 0x15:
            self._reserved(f, 3, "activate bit timing")
            self.activated = struct.unpack_from("<H", f, 1)[0]
        elif cs == 0x17:
            self._reserved(f, 1, "store configuration")
            if self.state == CONFIGURATION:
                self.stored += 1
                out = [bytes([0x17, 0]) + bytes(6)]
        elif cs in (0x46, 0x47, 0x48, 0x49, 0x4A, 0x4B, 0x4C):
            pass                                              # identify remote slave services: not modelled
        else:
            self.violations.append(("cs", f.hex(), f"unknown LSS command specifier 0x{cs:02X}"))
        return [(0x7E4, r) for r in out]
