"""Strict CiA 301 SDO server, written from the standard (independent of canopen).

It is an *acceptor* of the client side of the protocol: every request frame is
parsed strictly (8 bytes, command specifier legal for the current step, toggle,
unused-byte counts, reserved/padding bytes zero, declared size == bytes sent,
``c`` exactly once and last, sequence numbers, CRC).  Each deviation is recorded
in ``violations`` and answered with an abort (a legal reaction), never with an
exception.  How it answers where the standard leaves a choice is configured by
``style`` (uploads) and ``blk_plan`` / ``crc`` (block transfers).

Usage as a SimBus device:  ``bus.add_device(server.on_frame)``.
"""
import struct

from .cia301 import crc16_ccitt


class StrictSdoServer:
    def __init__(self, node_id=5, style="auto", seg_plan=None, blk_plan=(127,), crc=True,
                 block_upload=True, block_download=True, blk_size_indicated=True):
        self.rx = 0x600 + node_id
        self.tx = 0x580 + node_id
        self.store = {}              # (index, sub) -> bytes
        self.style = style           # auto | exp_s | exp_nos | seg_s | seg_nos
        self.seg_plan = seg_plan     # None = full 7-byte segments; else list of lengths 1..7, cycled, for non-final segments
        self.blk_plan = list(blk_plan)
        self.crc = crc
        self.block_upload = block_upload
        self.block_download = block_download
        self.blk_size_indicated = blk_size_indicated    # block upload initiate response with (s=1) or without size
        self.st = None
        self.violations = []         # (code, frame hex, text)
        self.frames = []             # every request seen (hex)
        self.commits = []            # (mux, bytes) in order
        self.aborts_received = []    # abort codes from the client
        self.expected_mux = None     # when set, initiate frames must carry it
        self.blk_i = 0
        self.pst_seen = None
        self.completed = []          # kinds of completed transfers
        self.ack_log = []            # block upload: (ackseq received, segments sent in that sub-block)

    # ------------------------------------------------------------ helpers
    def _viol(self, code, f, text):
        self.violations.append((code, f.hex(), text))

    def _abort(self, mux, code):
        self.st = None
        return [(self.tx, struct.pack("<B", 0x80) + mux + struct.pack("<L", code))]

    def _next_blksize(self):
        b = self.blk_plan[self.blk_i % len(self.blk_plan)]
        self.blk_i += 1
        return b

    def _cur_mux(self):
        return self.st["mux"] if self.st else bytes(3)

    # ------------------------------------------------------------ entry
    def on_frame(self, can_id, data, remote=False):
        if can_id != self.rx or remote:
            return []
        f = bytes(data)
        self.frames.append(f.hex())
        if len(f) != 8:
            self._viol("len", f, f"request has {len(f)} bytes")
            return self._abort(self._cur_mux(), 0x05040001)
        st = self.st
        # inside a block download sub-block every frame is a segment
        if st and st["kind"] == "bdl" and st["phase"] == "seg":
            return self._bdl_segment(f)
        ccs = f[0] >> 5
        if ccs == 4:
            self.aborts_received.append(struct.unpack_from("<L", f, 4)[0])
            self.st = None
            return []
        if ccs == 1:
            return self._init_download(f)
        if ccs == 0:
            return self._dl_segment(f)
        if ccs == 2:
            return self._init_upload(f)
        if ccs == 3:
            return self._ul_segment(f)
        if ccs == 6:
            return self._block_download(f)
        if ccs == 5:
            return self._block_upload(f)
        self._viol("ccs", f, "unknown command specifier 7")
        return self._abort(self._cur_mux(), 0x05040001)

    def _check_mux(self, f):
        if self.expected_mux is not None and f[1:4] != self.expected_mux:
            self._viol("mux", f, f"multiplexer {f[1:4].hex()} instead of {self.expected_mux.hex()}")

    # ------------------------------------------------------------ download
    def _init_download(self, f):
        if self.st is not None:
            self._viol("restart", f, f"initiate download while {self.st['kind']} in progress")
        self._check_mux(f)
        mux = f[1:4]
        if f[0] & 0x10:
            self._viol("reserved", f, "reserved bit 4 set in initiate download")
        e, s, n = f[0] & 2, f[0] & 1, (f[0] >> 2) & 3
        if e:
            if not s and n:
                self._viol("n", f, "n set without s in expedited download")
            ln = 4 - n if s else 4
            if any(f[4 + ln:]):
                self._viol("padding", f, "expedited padding bytes not zero")
            self.st = None
            self.store[(mux[0] | mux[1] << 8, mux[2])] = f[4:4 + ln]
            self.commits.append((mux, f[4:4 + ln]))
            self.completed.append("exp-dl")
        else:
            if n:
                self._viol("n", f, "n set in segmented initiate download")
            size = struct.unpack_from("<L", f, 4)[0] if s else None
            if not s and any(f[4:]):
                self._viol("padding", f, "size bytes not zero although s=0")
            self.st = dict(kind="dl", mux=mux, size=size, buf=b"", t=0)
        return [(self.tx, bytes([0x60]) + mux + bytes(4))]

    def _dl_segment(self, f):
        st = self.st
        if not st or st["kind"] != "dl":
            self._viol("sequence", f, "download segment outside a segmented download")
            return self._abort(self._cur_mux(), 0x05040001)
        t, n, c = (f[0] >> 4) & 1, (f[0] >> 1) & 7, f[0] & 1
        if t != st["t"]:
            self._viol("toggle", f, f"toggle {t}, expected {st['t']}")
            return self._abort(st["mux"], 0x05030000)
        if any(f[8 - n:]):
            self._viol("padding", f, "unused segment bytes not zero")
        st["buf"] += f[1:8 - n]
        st["t"] ^= 1
        if st["size"] is not None and len(st["buf"]) > st["size"]:
            self._viol("size", f, f"more data ({len(st['buf'])}) than declared ({st['size']})")
        if c:
            if st["size"] is not None and st["size"] != len(st["buf"]):
                self._viol("size", f, f"declared {st['size']} bytes, sent {len(st['buf'])}")
            mux = st["mux"]
            self.store[(mux[0] | mux[1] << 8, mux[2])] = st["buf"]
            self.commits.append((mux, st["buf"]))
            self.completed.append("seg-dl")
            self.st = None
        elif n:
            # CiA 301 allows short non-final segments; nothing to flag
            pass
        return [(self.tx, bytes([0x20 | (t << 4)]) + bytes(7))]

    # ------------------------------------------------------------ upload
    def _lookup(self, mux):
        return self.store.get((mux[0] | mux[1] << 8, mux[2]))

    def _init_upload(self, f):
        if self.st is not None:
            self._viol("restart", f, f"initiate upload while {self.st['kind']} in progress")
        self._check_mux(f)
        if f[0] & 0x1F or any(f[4:]):
            self._viol("reserved", f, "reserved bits/bytes set in initiate upload")
        mux = f[1:4]
        data = self._lookup(mux)
        if data is None:
            return self._abort(mux, 0x06020000)
        return self._start_upload(mux, data)

    def _start_upload(self, mux, data):
        style = self.style
        n = len(data)
        if style in ("auto", "exp_s") and 1 <= n <= 4:
            self.st = None
            self.completed.append("exp-ul")
            return [(self.tx, bytes([0x43 | ((4 - n) << 2)]) + mux + data.ljust(4, b"\0"))]
        if style == "exp_nos" and 1 <= n <= 4:
            self.st = None
            self.completed.append("exp-ul")
            return [(self.tx, bytes([0x42]) + mux + data.ljust(4, b"\0"))]
        sized = style != "seg_nos"
        self.st = dict(kind="ul", mux=mux, data=data, t=0, k=0)
        return [(self.tx, bytes([0x40 | (1 if sized else 0)]) + mux + (struct.pack("<L", n) if sized else bytes(4)))]

    def _ul_segment(self, f):
        st = self.st
        if not st or st["kind"] != "ul":
            self._viol("sequence", f, "upload segment request outside a segmented upload")
            return self._abort(self._cur_mux(), 0x05040001)
        if f[0] & 0x0F or any(f[1:]):
            self._viol("reserved", f, "reserved bits/bytes set in upload segment request")
        t = (f[0] >> 4) & 1
        if t != st["t"]:
            self._viol("toggle", f, f"toggle {t}, expected {st['t']}")
            return self._abort(st["mux"], 0x05030000)
        ln = 7
        if self.seg_plan:
            ln = self.seg_plan[st["k"] % len(self.seg_plan)]
        st["k"] += 1
        chunk = st["data"][:ln]
        st["data"] = st["data"][ln:]
        c = 0 if st["data"] else 1
        st["t"] ^= 1
        if c:
            self.st = None
            self.completed.append("seg-ul")
        return [(self.tx, bytes([(t << 4) | ((7 - len(chunk)) << 1) | c]) + chunk.ljust(7, b"\0"))]

    # ------------------------------------------------------------ block download
    def _block_download(self, f):
        cs = f[0] & 1
        st = self.st
        if cs == 0:
            if st is not None:
                self._viol("restart", f, f"initiate block download while {st['kind']} in progress")
            self._check_mux(f)
            mux = f[1:4]
            if not self.block_download:
                return self._abort(mux, 0x05040001)
            if f[0] & 0x18:
                self._viol("reserved", f, "reserved bits set in block download initiate")
            cc, s = bool(f[0] & 4), bool(f[0] & 2)
            size = struct.unpack_from("<L", f, 4)[0] if s else None
            if not s and any(f[4:]):
                self._viol("padding", f, "size bytes not zero although s=0")
            blk = self._next_blksize()
            use_crc = cc and self.crc
            self.st = dict(kind="bdl", phase="seg", mux=mux, size=size, buf=b"", blksize=blk, next=1,
                           crc=use_crc, client_cc=cc, last_len=None, got_last=False, segs=[])
            return [(self.tx, bytes([0xA0 | (4 if self.crc else 0)]) + mux + bytes([blk, 0, 0, 0]))]
        # end block download
        if not st or st["kind"] != "bdl" or st["phase"] != "end":
            self._viol("sequence", f, "block download end outside its phase")
            return self._abort(self._cur_mux(), 0x05040001)
        n = (f[0] >> 2) & 7
        if f[0] & 0x02:
            self._viol("reserved", f, "reserved bit set in block download end")
        if any(f[3:]):
            self._viol("reserved", f, "reserved bytes not zero in block download end")
        last = st["segs"][-1] if st["segs"] else b""
        if any(last[7 - n:]):
            self._viol("padding", f, "unused bytes of the last segment not zero")
        data = b"".join(st["segs"])
        data = data[:len(data) - n] if n else data
        if st["size"] is not None and st["size"] != len(data):
            self._viol("size", f, f"declared {st['size']} bytes, sent {len(data)} (n={n})")
            return self._abort(st["mux"], 0x06070010)
        crc_rx = struct.unpack_from("<H", f, 1)[0]
        if st["crc"]:
            if crc_rx != crc16_ccitt(data):
                self._viol("crc", f, f"crc {crc_rx:04x}, expected {crc16_ccitt(data):04x}")
                return self._abort(st["mux"], 0x05040004)
        else:
            self.crc_field_without_crc = crc_rx
        mux = st["mux"]
        self.store[(mux[0] | mux[1] << 8, mux[2])] = data
        self.commits.append((mux, data))
        self.completed.append("blk-dl")
        self.st = None
        return [(self.tx, bytes([0xA1]) + bytes(7))]

    def timeout(self):
        """Server-side SDO time-out: whatever transfer was running is dropped."""
        self.st = None

    def _bdl_segment(self, f):
        st = self.st
        if f[0] == 0x80:
            # sequence number 0 is never a segment: this is the client's abort
            self.aborts_received.append(struct.unpack_from("<L", f, 4)[0])
            self.st = None
            return []
        seq, c = f[0] & 0x7F, f[0] >> 7
        if seq == 0 or seq > st["blksize"]:
            self._viol("seqno", f, f"sequence number {seq} outside 1..{st['blksize']}")
            return self._abort(st["mux"], 0x05040003)
        if seq == st["next"] and not st["got_last"]:
            st["segs"].append(f[1:8])
            st["next"] += 1
            if c:
                st["got_last"] = True
        elif seq > st["next"]:
            pass        # gap: a segment was lost; ignore the rest of the sub-block
        else:
            self._viol("seqno", f, f"sequence number {seq} repeated (expected {st['next']})")
        if seq == st["blksize"] or c:
            return self.bdl_ack()
        return []

    def bdl_ack(self):
        """Acknowledge the sub-block (also used by the harness as 'server time-out' reaction)."""
        st = self.st
        ack = st["next"] - 1
        blk = self._next_blksize()
        if st["got_last"]:
            st["phase"] = "end"
        st["blksize"] = blk
        st["next"] = 1
        return [(self.tx, bytes([0xA2, ack, blk]) + bytes(5))]

    # ------------------------------------------------------------ block upload
    def _block_upload(self, f):
        cs = f[0] & 3
        st = self.st
        if cs == 0:
            if st is not None:
                self._viol("restart", f, f"initiate block upload while {st['kind']} in progress")
            self._check_mux(f)
            mux = f[1:4]
            if f[0] & 0x18:
                self._viol("reserved", f, "reserved bits set in block upload initiate")
            if any(f[6:]):
                self._viol("reserved", f, "reserved bytes not zero in block upload initiate")
            blk = f[4]
            self.pst_seen = f[5]
            data = self._lookup(mux)
            if data is None:
                return self._abort(mux, 0x06020000)
            if not self.block_upload:
                return self._start_upload(mux, data)
            if blk == 0 or blk > 127:
                self._viol("blksize", f, f"block size {blk}")
                return self._abort(mux, 0x05040002)
            cc = bool(f[0] & 4)
            self.st = dict(kind="bul", phase="start", mux=mux, data=data, pos=0, blksize=blk,
                           crc=cc and self.crc, sent=0)
            if self.blk_size_indicated:
                return [(self.tx, bytes([0xC2 | (4 if self.crc else 0)]) + mux + struct.pack("<L", len(data)))]
            return [(self.tx, bytes([0xC0 | (4 if self.crc else 0)]) + mux + bytes(4))]
        if not st or st["kind"] != "bul":
            self._viol("sequence", f, f"block upload cs={cs} outside a block upload")
            return self._abort(self._cur_mux(), 0x05040001)
        if cs == 3:
            if st["phase"] != "start":
                self._viol("sequence", f, "start upload in wrong phase")
                return self._abort(st["mux"], 0x05040001)
            if any(f[1:]):
                self._viol("reserved", f, "reserved bytes not zero in start upload")
            return self._bul_send_block()
        if cs == 2:
            if st["phase"] != "blocks":
                self._viol("sequence", f, "block response in wrong phase")
                return self._abort(st["mux"], 0x05040001)
            ack, blk = f[1], f[2]
            if any(f[3:]):
                self._viol("reserved", f, "reserved bytes not zero in block upload response")
            if ack > st["sent"]:
                self._viol("ackseq", f, f"ackseq {ack} > segments sent {st['sent']}")
                return self._abort(st["mux"], 0x05040003)
            if blk == 0 or blk > 127:
                self._viol("blksize", f, f"block size {blk}")
                return self._abort(st["mux"], 0x05040002)
            st["pos"] += 7 * ack
            self.ack_log.append((ack, st["sent"]))
            st["blksize"] = blk
            if st["pos"] >= len(st["data"]):
                st["phase"] = "end"
                n = (7 - len(st["data"]) % 7) % 7
                crc = crc16_ccitt(st["data"]) if st["crc"] else 0
                return [(self.tx, bytes([0xC1 | (n << 2)]) + struct.pack("<H", crc) + bytes(5))]
            return self._bul_send_block()
        # cs == 1: end
        if st["phase"] != "end":
            self._viol("sequence", f, "end block upload in wrong phase")
            return self._abort(st["mux"], 0x05040001)
        if any(f[1:]):
            self._viol("reserved", f, "reserved bytes not zero in end block upload")
        self.completed.append("blk-ul")
        self.st = None
        return []

    def _bul_send_block(self):
        st = self.st
        st["phase"] = "blocks"
        out = []
        pos = st["pos"]
        data = st["data"]
        seq = 0
        while seq < st["blksize"] and (pos < len(data) or (len(data) == 0 and seq == 0)):
            seq += 1
            chunk = data[pos:pos + 7]
            pos += 7
            last = pos >= len(data)
            out.append((self.tx, bytes([(0x80 if last else 0) | seq]) + chunk.ljust(7, b"\0")))
        st["sent"] = seq
        return out
