"""Independent EDS/DCF text writer (CiA 306) from a plain-dict dictionary model. No configparser.

Model
-----
doc = {
  "doc_type": "eds" | "dcf",
  "node_id": int | None            (written to [DeviceComissioning] when not None)
  "baudrate": int | None           (kbit/s)
  "comments": [str, ...],
  "device_info": {key: value},     (EDS key names)
  "objects": [obj, ...],
}
obj = {"kind": "var" | "var-noobjtype" | "domain" | "record" | "array" | "compact" | "compact-named",
       "index": int, "name": str, "vars": [var, ...], "n": int (compact), "names": [str] (compact-named)}
var = {"sub": int, "name": str, "type": int, "access": str, "pdo": None | 0 | 1,
       "default": spec | None, "value": spec | None, "low": int | None, "high": int | None,
       "factor"/"unit"/"description"/"storage": optional}
spec = ("abs", python value) | ("rel", offset)      rel = $NODEID-relative

Spelling options (``style``): number {"dec","hex","HEX"}, sub {"sub","Sub"}, subdigits {"lower","upper"},
access_upper bool, pdo_spelling {"dec","hex"}, rel_form {0..3}, limit_hex bool (two's complement hex limits).
"""

SIGNED_WIDTH = {2: 8, 3: 16, 4: 32, 0x10: 24, 0x12: 40, 0x13: 48, 0x14: 56, 0x15: 64}
UNSIGNED_WIDTH = {5: 8, 6: 16, 7: 32, 0x16: 24, 0x18: 40, 0x19: 48, 0x1A: 56, 0x1B: 64}
REAL = (8, 0x11)
TEXT = (9, 0xB)
BYTES = (0xA, 0xF)
OBJECT_TYPE = {"var": 7, "domain": 2, "record": 9, "array": 8, "compact": 8, "compact-named": 8}


def num(v, style):
    how = style.get("number", "dec")
    if v < 0 or how == "dec":
        return str(v)
    return ("0x%x" % v) if how == "hex" else ("0X%X" % v if style.get("upper_prefix") else "0x%X" % v)


def limit(v, t, style):
    if style.get("limit_hex") and t in SIGNED_WIDTH:
        w = SIGNED_WIDTH[t]
        return "0x%X" % (v + (1 << w) if v < 0 else v)
    if style.get("limit_hex"):
        return "0x%X" % v
    return str(v)


def value_text(spec, t, style):
    kind = spec[0]
    if kind == "rel":
        off = num(spec[1], style)
        return ["$NODEID+%s", "%s+$NODEID", "$NODEID + %s", "%s + $NODEID"][style.get("rel_form", 0)] % off
    v = spec[1]
    if t in BYTES:
        return bytes(v).hex()
    if t in TEXT:
        return str(v)
    if t in REAL:
        if style.get("value_hex2c") and float(v) == int(v) and v >= 0:
            return "0x%X" % int(v)       # a whole number, written like every other number of a hex-only document
        return repr(float(v))
    if t == 1:
        return "1" if v else "0"
    if style.get("value_hex2c") and t in SIGNED_WIDTH and int(v) < 0:
        # negative values of signed objects written the way many EDS editors do: two's complement in hexadecimal
        return "0x%X" % (int(v) + (1 << SIGNED_WIDTH[t]))
    return num(int(v), style)


def write_var(lines, section, var, style, object_type=7, with_object_type=True, dcf=False):
    lines.append("[%s]" % section)
    lines.append("ParameterName=%s" % var["name"])
    if with_object_type:
        lines.append("ObjectType=%s" % num(object_type, dict(style, number=style.get("number", "dec"))))
    lines.append("DataType=%s" % ("0x%04X" % var["type"] if style.get("number") != "dec" else str(var["type"])))
    acc = var.get("access", "rw")
    lines.append("AccessType=%s" % (acc.upper() if style.get("access_upper") else acc))
    if var.get("pdo") is not None:
        lines.append("PDOMapping=%s" % (("0x%X" % var["pdo"]) if style.get("pdo_spelling") == "hex" else str(var["pdo"])))
    if var.get("default") is not None:
        lines.append("DefaultValue=%s" % value_text(var["default"], var["type"], style))
    if var.get("low") is not None:
        lines.append("LowLimit=%s" % limit(var["low"], var["type"], style))
    if var.get("high") is not None:
        lines.append("HighLimit=%s" % limit(var["high"], var["type"], style))
    if dcf and var.get("value") is not None:
        lines.append("ParameterValue=%s" % value_text(var["value"], var["type"], style))
    for key, attr in (("Factor", "factor"), ("Unit", "unit"), ("Description", "description"), ("StorageLocation", "storage")):
        if var.get(attr) not in (None, ""):
            lines.append("%s=%s" % (key, var[attr]))


def write(doc, style=None):
    style = style or {}
    dcf = doc.get("doc_type", "eds") == "dcf"
    L = []
    L += ["[FileInfo]", "FileName=model.%s" % ("dcf" if dcf else "eds"), "FileVersion=1", "EDSVersion=4.0", ""]
    di = doc.get("device_info")
    if di is not None:
        L.append("[DeviceInfo]")
        for k, v in di.items():
            L.append("%s=%s" % (k, v))
        L.append("")
    if doc.get("node_id") is not None or doc.get("baudrate") is not None:
        L.append("[DeviceComissioning]")
        if doc.get("node_id") is not None:
            L.append("NodeID=%s" % num(doc["node_id"], style))
        if doc.get("baudrate") is not None:
            L.append("Baudrate=%d" % doc["baudrate"])
        L.append("")
    if doc.get("comments") is not None:
        L.append("[Comments]")
        L.append("Lines=%d" % len(doc["comments"]))
        for i, c in enumerate(doc["comments"], 1):
            L.append("Line%d=%s" % (i, c))
        L.append("")
    objs = doc.get("objects", [])
    mand = [o for o in objs if o["index"] in (0x1000, 0x1001, 0x1018)]
    manu = [o for o in objs if 0x2000 <= o["index"] < 0x6000]
    opt = [o for o in objs if o not in mand and o not in manu]
    for title, group in (("MandatoryObjects", mand), ("OptionalObjects", opt), ("ManufacturerObjects", manu)):
        L.append("[%s]" % title)
        L.append("SupportedObjects=%d" % len(group))
        for i, o in enumerate(group, 1):
            L.append("%d=0x%04X" % (i, o["index"]))
        L.append("")
    sub = style.get("sub", "sub")
    for o in objs:
        sec = ("%04X" if style.get("subdigits") != "lower" else "%04x") % o["index"]
        kind = o["kind"]
        if kind in ("var", "var-noobjtype", "domain"):
            write_var(L, sec, dict(o["vars"][0], name=o["name"]), style, OBJECT_TYPE.get(kind, 7), kind != "var-noobjtype", dcf)
        elif kind in ("record", "array"):
            L += ["[%s]" % sec, "ParameterName=%s" % o["name"], "ObjectType=%s" % num(OBJECT_TYPE[kind], style),
                  "SubNumber=%d" % len(o["vars"])]
            if o.get("storage"):
                L.append("StorageLocation=%s" % o["storage"])
            for v in o["vars"]:
                digits = ("%X" if style.get("subdigits") != "lower" else "%x") % v["sub"]
                write_var(L, "%s%s%s" % (sec, sub, digits), v, style, 7, True, dcf)
        else:
            t = o["vars"][0]
            write_var(L, sec, dict(t, name=o["name"]), style, 8, True, dcf)
            L.append("CompactSubObj=%d" % o["n"])
            if kind == "compact-named":
                L.append("[%sName]" % sec)
                L.append("NrOfEntries=%d" % len(o["names"]))
                for i, nm in enumerate(o["names"], 1):
                    L.append("%d=%s" % (i, nm))
        L.append("")
    return "\n".join(L) + "\n"
