"""Strict CiA 301 PDO parameter device (communication + mapping parameter objects of one PDO).

Used in place of a node's SDO transport: ``upload(index, sub)`` / ``download(index, sub, data)``.
It logs every write and refuses (SdoAbortedError, like a strict device) out-of-order writes:
a mapping or communication-parameter write while the PDO is valid, a mapping entry write while
the count is not 0, a count larger than the entries written / longer than 64 bits, validation
with an over-long mapping, a COB-ID change while valid.
"""
import struct


class StrictPdoDevice:
    def __init__(self, com, mapi, subs=(3, 5, 6), prior="blank", abort_cls=Exception):
        self.com, self.map, self.log, self.refused = com, mapi, [], []
        self.abort_cls = abort_cls
        self.fail_at, self.ndl = None, 0          # fault injection: the k-th write is answered with an abort (once)
        self.store = {(com, 0): bytes([max((2,) + tuple(subs))]), (com, 1): struct.pack("<L", 0x80000000 | 0x181),
                      (com, 2): b"\xff", (mapi, 0): b"\x00"}
        for s in subs:
            self.store[(com, s)] = b"\0" if s == 6 else b"\0\0"
        for k in range(1, 9):
            self.store[(mapi, k)] = bytes(4)
        if prior in ("valid1", "valid8"):
            # a device that was configured before: its optional timers are not zero
            for s_ in subs:
                self.store[(com, s_)] = b"\x05" if s_ == 6 else b"\x34\x12"
        if prior == "valid1":
            self.store[(com, 1)] = struct.pack("<L", 0x181)
            self.store[(mapi, 0)] = b"\x01"
            self.store[(mapi, 1)] = struct.pack("<L", 0x20020020)
        if prior == "valid8":
            self.store[(com, 1)] = struct.pack("<L", 0x181)
            self.store[(mapi, 0)] = b"\x08"
            for k in range(1, 9):
                self.store[(mapi, k)] = struct.pack("<L", 0x20000008)

    def valid(self):
        return not struct.unpack("<L", self.store[(self.com, 1)])[0] & 0x80000000

    def upload(self, i, si):
        if (i, si) not in self.store:
            raise self.abort_cls(0x06090011)
        return self.store[(i, si)]

    def _refuse(self, i, si, data, code, why):
        self.refused.append((i, si, data.hex(), why))
        raise self.abort_cls(code)

    def download(self, i, si, data, force_segment=False):
        data = bytes(data)
        self.ndl += 1
        if self.fail_at is not None and self.ndl == self.fail_at:
            self.fail_at = None
            raise self.abort_cls(0x08000022)         # e.g. the device is in a state in which it refuses the access
        self.log.append((i, si, data, self.valid(), self.store[(self.map, 0)][0]))
        if (i, si) not in self.store:
            self._refuse(i, si, data, 0x06090011, "no such sub")
        if len(data) != len(self.store[(i, si)]):
            self._refuse(i, si, data, 0x06070010, "length")
        if i == self.com and si == 1:
            new = struct.unpack("<L", data)[0]
            old = struct.unpack("<L", self.store[(i, si)])[0]
            if not old & 0x80000000 and not new & 0x80000000 and (old ^ new) & 0x3FFFFFFF:
                self._refuse(i, si, data, 0x06090030, "cob change while valid")
            if not new & 0x80000000:
                n = self.store[(self.map, 0)][0]
                total = sum(struct.unpack("<L", self.store[(self.map, k)])[0] & 0xFF for k in range(1, n + 1))
                if total > 64:
                    self._refuse(i, si, data, 0x06040042, "length exceeded at validation")
        elif i == self.com and self.valid():
            self._refuse(i, si, data, 0x08000022, "communication parameter write while valid")
        elif i == self.map:
            if self.valid():
                self._refuse(i, si, data, 0x06010000, "mapping write while valid")
            if si >= 1 and self.store[(self.map, 0)][0] != 0:
                self._refuse(i, si, data, 0x06010000, "entry write while count != 0")
            if si == 0 and data[0] > 0:
                total = 0
                for k in range(1, data[0] + 1):
                    e = struct.unpack("<L", self.store[(self.map, k)])[0]
                    if e == 0:
                        self._refuse(i, si, data, 0x06040041, "count beyond written entries")
                    total += e & 0xFF
                if total > 64:
                    self._refuse(i, si, data, 0x06040042, "length")
        self.store[(i, si)] = data
