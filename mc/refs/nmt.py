"""CiA 301 NMT reference: command specifier table, state numbers, addressing rule."""

# NMT state numbers as transmitted in heartbeat messages
INITIALISING, STOPPED, OPERATIONAL, PRE_OPERATIONAL = 0, 4, 5, 127
SLEEP, STANDBY = 80, 96                      # CiA 302 power-management extensions carried by the library
STATE_NAMES = {0: "INITIALISING", 4: "STOPPED", 5: "OPERATIONAL", 80: "SLEEP", 96: "STANDBY", 127: "PRE-OPERATIONAL"}

# command specifier -> state entered by the addressed node(s)
COMMAND_TABLE = {1: OPERATIONAL, 2: STOPPED, 80: SLEEP, 96: STANDBY, 128: PRE_OPERATIONAL, 129: INITIALISING,
                 130: INITIALISING}
# names accepted by the state setter -> command specifier
NAME_TO_CS = {"OPERATIONAL": 1, "STOPPED": 2, "SLEEP": 80, "STANDBY": 96, "PRE-OPERATIONAL": 128, "INITIALISING": 129,
              "RESET": 129, "RESET COMMUNICATION": 130}


def addressed(own_id, target):
    return target == 0 or target == own_id


def after_command(state, own_id, cs, target):
    if addressed(own_id, target) and cs in COMMAND_TABLE:
        return COMMAND_TABLE[cs]
    return state


def after_heartbeat(byte):
    st = byte & 0x7F
    return PRE_OPERATIONAL if st == 0 else st
