"""CiA 402 drive model: power state machine (transitions 0..16), statusword / controlword coding.

Automatic transitions (1: NOT READY -> SWITCH ON DISABLED, 14: FAULT REACTION ACTIVE -> FAULT and,
for the drive variant that leaves quick stop on its own, 12: QUICK STOP ACTIVE -> SWITCH ON
DISABLED) are *schedulable*: every time the statusword is sampled while one is pending the
environment decides (``choose``) whether it has fired.
"""
import struct

NRTSO, SOD, RTSO, SO, OE, QSA, FRA, FAULT = ("NOT READY TO SWITCH ON", "SWITCH ON DISABLED", "READY TO SWITCH ON",
                                             "SWITCHED ON", "OPERATION ENABLED", "QUICK STOP ACTIVE",
                                             "FAULT REACTION ACTIVE", "FAULT")
STATES = [NRTSO, SOD, RTSO, SO, OE, QSA, FRA, FAULT]
# statusword state bits: xxxx xxxx x(6)(5)x (3)(2)(1)(0)
SW_BITS = {NRTSO: 0x00, SOD: 0x40, RTSO: 0x21, SO: 0x23, OE: 0x27, QSA: 0x07, FRA: 0x0F, FAULT: 0x08}
# (mask, value) per CiA 402
SW_MASKS = {NRTSO: (0x4F, 0x00), SOD: (0x4F, 0x40), RTSO: (0x6F, 0x21), SO: (0x6F, 0x23), OE: (0x6F, 0x27),
            QSA: (0x6F, 0x07), FRA: (0x4F, 0x0F), FAULT: (0x4F, 0x08)}
NON_STATE_BITS = 0xFFFF & ~0x6F
MODE_CODES = {"NO MODE": 0, "PROFILED POSITION": 1, "VELOCITY": 2, "PROFILED VELOCITY": 3, "PROFILED TORQUE": 4, "HOMING": 6,
              "INTERPOLATED POSITION": 7, "CYCLIC SYNCHRONOUS POSITION": 8, "CYCLIC SYNCHRONOUS VELOCITY": 9,
              "CYCLIC SYNCHRONOUS TORQUE": 10}
# supported drive modes object 0x6502: bit n-1 for mode n
MODE_SUPPORT_BIT = {name: (0 if code == 0 else 1 << (code - 1)) for name, code in MODE_CODES.items()}


def decode_statusword(sw):
    for name in STATES:
        m, v = SW_MASKS[name]
        if sw & m == v:
            return name
    return "UNKNOWN"


class Drive402:
    def __init__(self, state, choose=None, extra_bits=0, leaves_quick_stop=False, supported=0x3EF, latency=0.0, clock=None):
        self.state = state
        self.trace = [state]
        self.cw = 0
        self.cws = []
        self.choose = choose or (lambda n, label: 0)
        self.extra = extra_bits & NON_STATE_BITS
        self.auto = {NRTSO: SOD, FRA: FAULT}
        if leaves_quick_stop:
            self.auto[QSA] = SOD
        self.mode = 0
        self.mode_writes = []
        self.supported = supported
        self.sw_reads = 0
        # a slow (still conformant) drive: a controlword takes effect `latency` seconds after it was received
        self.latency, self.clock, self.pending = latency, clock, []
        self.deaf = False        # a drive that does not get the master's controlwords for a while (e.g. NMT pre-operational)

    def go(self, st):
        self.state = st
        self.trace.append(st)

    def sample_statusword(self):
        """The statusword as seen by one read / one TPDO; a pending automatic transition may fire first."""
        self.sw_reads += 1
        while self.pending and self.pending[0][0] <= self.clock():
            self._controlword(self.pending.pop(0)[1])
        if self.state in self.auto:
            if self.choose(2, f"auto:{self.state}") == 0:
                self.go(self.auto[self.state])
        return SW_BITS[self.state] | self.extra

    def controlword(self, cw):
        if self.deaf:
            self.ignored = getattr(self, "ignored", 0) + 1
            return
        if self.latency:
            self.cws.append(cw)
            self.pending.append((self.clock() + self.latency, cw))
            return
        self._controlword(cw)

    def _controlword(self, cw):
        prev = self.cw
        self.cw = cw
        if not self.latency:
            self.cws.append(cw)
        st = self.state
        if st == FAULT:
            if cw & 0x80 and not prev & 0x80:
                self.go(SOD)                       # transition 15: fault reset (rising edge)
            return
        if st in (NRTSO, FRA):
            return
        dv = (cw & 0x02) == 0                      # disable voltage
        qs = (cw & 0x06) == 0x02                   # quick stop
        sd = (cw & 0x07) == 0x06                   # shutdown
        so = (cw & 0x0F) == 0x07                   # switch on
        eo = (cw & 0x0F) == 0x0F                   # switch on + enable operation
        if st == SOD:
            if sd:
                self.go(RTSO)                      # 2
        elif st == RTSO:
            if dv or qs:
                self.go(SOD)                       # 7
            elif so:
                self.go(SO)                        # 3
            elif eo:
                self.go(SO)
                self.go(OE)                        # 3 + 4
        elif st == SO:
            if dv or qs:
                self.go(SOD)                       # 10
            elif sd:
                self.go(RTSO)                      # 6
            elif eo:
                self.go(OE)                        # 4
        elif st == OE:
            if dv:
                self.go(SOD)                       # 9
            elif qs:
                self.go(QSA)                       # 11
            elif sd:
                self.go(RTSO)                      # 8
            elif so:
                self.go(SO)                        # 5
        elif st == QSA:
            if dv:
                self.go(SOD)                       # 12
            elif eo:
                self.go(OE)                        # 16

    # ---- SDO transport (instance-level replacement of node.sdo.upload / download)
    def upload(self, index, sub):
        if index == 0x6041:
            return struct.pack("<H", self.sample_statusword())
        if index == 0x6061:
            return struct.pack("<b", self.mode)
        if index == 0x6502:
            return struct.pack("<L", self.supported)
        raise KeyError(index)

    def download(self, index, sub, data, force_segment=False):
        data = bytes(data)
        if index == 0x6060:
            self.mode_writes.append(data)
            if len(data) == 1:
                self.mode = struct.unpack("<b", data)[0]
            return
        if index == 0x6040:
            self.controlword(struct.unpack("<H", data)[0])
            return
        raise KeyError(index)
