"""CiA 301 emergency error code classes (table 'Emergency error code classes') and the reset rule."""

# (first code of class, last code of class, description as used by the library's vocabulary)
CLASSES = [
    (0x0000, 0x00FF, "Error Reset / No Error"),
    (0x1000, 0x10FF, "Generic Error"),
    (0x2000, 0x2FFF, "Current"),
    (0x3000, 0x3FFF, "Voltage"),
    (0x4000, 0x4FFF, "Temperature"),
    (0x5000, 0x50FF, "Device Hardware"),
    (0x6000, 0x6FFF, "Device Software"),
    (0x7000, 0x70FF, "Additional Modules"),
    (0x8000, 0x8FFF, "Monitoring"),
    (0x9000, 0x90FF, "External Error"),
    (0xF000, 0xF0FF, "Additional Functions"),
    (0xFF00, 0xFFFF, "Device Specific"),
]


def description(code):
    for lo, hi, text in CLASSES:
        if lo <= code <= hi:
            return text
    return ""


def is_reset(code):
    """Error reset / no error: codes 00xx."""
    return code & 0xFF00 == 0
