"""Evidence writer: /verif/evidence/<id>.json per EVIDENCE.schema.json, measured counts only."""
import json
import os
import subprocess

VERIF = os.environ.get("VERIF_OUT") or os.path.dirname(os.path.dirname(os.path.abspath(__file__)))


def _repo_rev(repo):
    try:
        head = subprocess.run(["git", "-C", repo, "rev-parse", "--short", "HEAD"], capture_output=True,
                              text=True, timeout=10).stdout.strip()
        dirty = subprocess.run(["git", "-C", repo, "status", "--porcelain", "--", "canopen"], capture_output=True,
                               text=True, timeout=10).stdout.strip()
        return head + ("+dirty" if dirty else "")
    except Exception:  # noqa: BLE001
        return "unknown"


def write(pid, mod, st, tier, seed, wall, n_new, n_known, repo):
    level = mod.LEVEL
    nontrivial = st.nontrivial_n + len(st.nontrivial)
    cov = {
        "evaluations": st.evaluations,
        "distinct_nontrivial": nontrivial,
        "rule": mod.RULE,
        "samples": st.samples or ["(no sample recorded)"],
        "distinct_outcomes": len(st.outcomes),
        "outcomes": dict(sorted(st.outcomes.items(), key=lambda kv: -kv[1])[:40]),
        "counters": dict(sorted(st.counters.items())),
        "excluded_by_rule": st.excluded,
        "caps_hit": st.caps,
        "exhaustive": bool(getattr(mod, "EXHAUSTIVE", True)) and not st.caps,
        "bounds": mod.bounds(tier) if hasattr(mod, "bounds") else {},
        "known_findings_reported": n_known,
        "repo_revision": _repo_rev(repo),
    }
    if st.max_dev is not None:
        cov["max_deviations_completed"] = st.max_dev
    if level == "model_checking":
        cov["states"] = st.states
        cov["transitions"] = st.transitions
        cov["traces_validated_against_impl"] = st.traces
        cov["explanation"] = ("every explored state/transition/schedule is an execution of the real canopen code; "
                              "the reference model is stepped in lock-step, so each trace is validated against the "
                              "implementation by construction")
    ev = {
        "property_id": pid, "tier": tier, "seed": seed, "level": level, "coverage": cov,
        "assumptions": list(getattr(mod, "ASSUMPTIONS", [])),
        "wall_s": round(wall, 2), "violations": n_new,
    }
    os.makedirs(os.path.join(VERIF, "evidence"), exist_ok=True)
    with open(os.path.join(VERIF, "evidence", pid + ".json"), "w") as f:
        json.dump(ev, f, indent=1, default=repr)
