"""Explorers A (choice-point DFS with deviation bound) and B (explicit-state BFS)."""
from . import simenv
from .simenv import HarnessError


class Chooser:
    """Records / replays environment choices of one execution. Choice 0 = default."""

    def __init__(self, prefix=(), expect=None):
        self.prefix = list(prefix)
        self.expect = expect          # [(n, label)] of the parent execution for the prefix positions
        self.trace = []               # (n, label, chosen)

    def choose(self, n, label=""):
        i = len(self.trace)
        k = self.prefix[i] if i < len(self.prefix) else 0
        if self.expect is not None and i < len(self.expect):
            en, el = self.expect[i]
            if en != n or el != label:
                raise HarnessError(f"replay divergence at choice {i}: recorded {(en, el)}, now {(n, label)}")
        if k >= n:
            raise HarnessError(f"replay divergence at choice {i}: {k} >= {n} ({label})")
        self.trace.append((n, label, k))
        return k

    @property
    def choices(self):
        return [t[2] for t in self.trace]

    @property
    def deviations(self):
        return sum(1 for t in self.trace if t[2])


def explore_choices(run, max_dev, on_exec, max_exec=None, fixed=None):
    """Run ``run(chooser)`` for every choice vector with at most ``max_dev`` non-default choices.

    ``on_exec(chooser, outcome)`` is called once per complete execution.
    ``fixed``: run only this one choice vector (replay).
    Returns dict(executions, choice_points, max_dev_completed, capped).
    """
    st = {"executions": 0, "choice_points": 0, "max_dev_completed": max_dev, "capped": False}
    if fixed is not None:
        ch = Chooser(fixed)
        out = run(ch)
        st["executions"] = 1
        st["choice_points"] = len(ch.trace)
        on_exec(ch, out)
        return st
    stack = [([], None)]
    while stack:
        prefix, expect = stack.pop()
        ch = Chooser(prefix, expect)
        out = run(ch)
        st["executions"] += 1
        st["choice_points"] += len(ch.trace)
        on_exec(ch, out)
        if max_exec is not None and st["executions"] >= max_exec:
            st["capped"] = True
            break
        if st["executions"] % 64 == 0 and simenv.expired():
            st["capped"] = "deadline"
            break
        devs = sum(1 for k in prefix if k)
        if devs + 1 > max_dev:
            continue
        exp = [(t[0], t[1]) for t in ch.trace]
        for i in range(len(ch.trace) - 1, len(prefix) - 1, -1):
            n = ch.trace[i][0]
            base = [t[2] for t in ch.trace[:i]]
            for alt in range(n - 1, 0, -1):
                stack.append((base + [alt], exp[:i + 1]))
    return st


def bfs(make, apply, events_of, canon, max_depth=None, max_states=None, on_transition=None,
        terminal=None, root=(), on_state=None, static_events=None):
    """Explicit-state BFS where a state is the event history reaching it.

    make() -> fresh sim; apply(sim, ev) -> verdicts (list) of that step;
    events_of(sim) -> iterable of enabled events; canon(sim) -> hashable.
    ``terminal(sim, verdicts)``: if true the state is not expanded.
    Returns dict(states, transitions, depth, closed, capped, verdicts=[(history, verdict)]).
    """
    def build(hist):
        sim = make()
        v = []
        for ev in hist:
            v = apply(sim, ev)
        return sim, v

    sim0, _ = build(list(root))
    seen = {canon(sim0)}
    frontier = [list(root)]
    if on_state is not None:
        on_state(list(root))
    res = {"states": 1, "transitions": 0, "depth": 0, "closed": False, "capped": False, "verdicts": []}
    depth = 0
    while frontier:
        if max_depth is not None and depth >= max_depth:
            break
        nxt = []
        for hist in frontier:
            if simenv.expired():
                res["capped"] = "deadline"
                break
            if static_events is not None:
                evs = static_events
            else:
                sim, _ = build(hist)
                evs = list(events_of(sim))
            for ev in evs:
                sim2, _ = build(hist)
                verdicts = apply(sim2, ev)
                res["transitions"] += 1
                h2 = hist + [ev]
                if on_transition is not None:
                    on_transition(h2, sim2, verdicts)
                for v in verdicts:
                    res["verdicts"].append((h2, v))
                if terminal is not None and terminal(sim2, verdicts):
                    continue
                k = canon(sim2)
                if k not in seen:
                    seen.add(k)
                    nxt.append(h2)
                    if on_state is not None:
                        on_state(h2)
                    if max_states is not None and len(seen) >= max_states:
                        res["capped"] = True
                        break
            if res["capped"]:
                break
        if res["capped"]:
            break
        frontier = nxt
        if nxt:
            depth += 1
    else:
        res["closed"] = True
    if not frontier:
        res["closed"] = not res["capped"]
    res["states"] = len(seen)
    res["depth"] = depth
    return res


# ---------------------------------------------------------------------------------------------
# level-synchronous parallel BFS (fork pool); same contract as bfs(), for closures too big for one core
_PB = {}


def _pb_expand(chunk):
    make, apply, events_of, canon, terminal, static_events = (_PB[k] for k in
                                                             ("make", "apply", "events_of", "canon", "terminal", "static"))
    out = []
    for hist in chunk:
        def build(h):
            sim = make()
            v = []
            for ev in h:
                v = apply(sim, ev)
            return sim, v
        if static_events is not None:
            evs = static_events
        else:
            sim, _ = build(hist)
            evs = list(events_of(sim))
        for ev in evs:
            sim2, verdicts = build(hist + [ev])
            term = bool(terminal is not None and terminal(sim2, verdicts))
            out.append((hist + [ev], None if term else canon(sim2), verdicts))
    return out


def bfs_parallel(make, apply, events_of, canon, jobs=16, max_depth=None, max_states=None, terminal=None,
                 static_events=None, root=(), collect_states=None):
    import multiprocessing
    _PB.update(make=make, apply=apply, events_of=events_of, canon=canon, terminal=terminal, static=static_events)
    sim0 = make()
    for ev in root:
        apply(sim0, ev)
    seen = {canon(sim0)}
    frontier = [list(root)]
    res = {"states": 1, "transitions": 0, "depth": 0, "closed": False, "capped": False, "verdicts": []}
    depth = 0
    with WatchedPool(jobs) as pool:
        while frontier:
            if max_depth is not None and depth >= max_depth:
                break
            n = max(1, min(len(frontier), jobs * 4))
            chunks = [frontier[i::n] for i in range(n)]
            nxt = []
            for part in pool.map(_pb_expand, chunks):
                for h2, key, verdicts in part:
                    res["transitions"] += 1
                    for v in verdicts:
                        res["verdicts"].append((h2, v))
                    if key is None:
                        continue
                    if key not in seen:
                        seen.add(key)
                        nxt.append(h2)
                        if collect_states is not None:
                            collect_states.append(h2)
            if max_states is not None and len(seen) >= max_states:
                res["capped"] = True
                break
            if simenv.expired():
                res["capped"] = "deadline"
                break
            frontier = nxt
            if nxt:
                depth += 1
        else:
            res["closed"] = True
    res["states"] = len(seen)
    res["depth"] = depth
    return res


class WorkerDied:
    def __init__(self, code):
        self.code = code


def _fm_child(fn, arg, w):
    try:
        w.send(fn(arg))
    finally:
        w.close()


def forkmap(fn, args, jobs=16, strict=True):
    """Ordered map over ``args``, one forked process per argument, at most ``jobs`` at a time.  Unlike
    multiprocessing.Pool a child that dies (a changed tree can crash or exhaust the interpreter) does not hang the
    run: with ``strict`` it is a HarnessError, otherwise its slot holds a WorkerDied marker."""
    import multiprocessing
    from multiprocessing.connection import wait
    ctx = multiprocessing.get_context("fork")
    out = [None] * len(args)
    pending = list(range(len(args)))
    running = {}
    while pending or running:
        while pending and len(running) < jobs:
            i = pending.pop(0)
            r, w = ctx.Pipe(duplex=False)
            p = ctx.Process(target=_fm_child, args=(fn, args[i], w))
            p.start()
            w.close()
            running[r] = (p, i)
        for r in wait(list(running), timeout=5.0):
            p, i = running.pop(r)
            try:
                out[i] = r.recv()
            except (EOFError, OSError):
                p.join()
                out[i] = WorkerDied(p.exitcode)
            r.close()
            p.join()
    if strict:
        dead = [o for o in out if isinstance(o, WorkerDied)]
        if dead:
            raise HarnessError(f"{len(dead)} worker process(es) died (exit code {dead[0].code})")
    return out


class WatchedPool:
    """multiprocessing fork pool whose map() raises HarnessError instead of hanging when a worker process dies."""

    def __init__(self, jobs):
        import multiprocessing
        self.pool = multiprocessing.get_context("fork").Pool(jobs)
        self.pids = sorted(p.pid for p in self.pool._pool)

    def map(self, fn, chunks):
        ar = self.pool.map_async(fn, chunks)
        while not ar.ready():
            ar.wait(0.5)
            if sorted(p.pid for p in self.pool._pool) != self.pids or any(p.exitcode is not None for p in self.pool._pool):
                self.pool.terminate()
                raise HarnessError("a worker process died (the tree under test crashed or exhausted the interpreter)")
        return ar.get()

    def __enter__(self):
        return self

    def __exit__(self, *a):
        self.pool.terminate()
        self.pool.join()


def parallel_map(fn, items, jobs=16):
    """fork-pool map for run_main parts (fn must be a module-level function)."""
    import multiprocessing
    if not items:
        return []
    ctx = multiprocessing.get_context("fork")
    n = max(1, min(len(items), jobs * 4))
    chunks = [items[i::n] for i in range(n)]
    out = []
    with WatchedPool(jobs) as pool:
        for part in pool.map(fn, chunks):
            out.extend(part)
    return out


def scalar_state(obj, exclude=()):
    """Every scalar attribute of an object (hidden state included) as a canonical tuple: used inside canon()
    functions so that states differing only in a flag the check did not think of are not merged."""
    out = []
    for k, v in sorted(getattr(obj, "__dict__", {}).items()):
        if k in exclude:
            continue
        if isinstance(v, (int, str, bool, float, type(None), bytes)):
            out.append((k, v))
        elif isinstance(v, bytearray):
            out.append((k, bytes(v)))
    return tuple(out)
