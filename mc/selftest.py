"""Self-tests of the explorers on toy problems with known answers (run by MANIFEST.setup_cmd)."""
import sys

from . import kernel, simenv, vsched


def test_choices():
    # 3 binary choice points: 1 + 3 + 3 executions with <=2 deviations, 8 with <=3
    seen = []
    st = kernel.explore_choices(lambda ch: tuple(ch.choose(2, f"p{i}") for i in range(3)), 2,
                                lambda ch, out: seen.append(out))
    assert st["executions"] == 7 and len(set(seen)) == 7, st
    seen.clear()
    st = kernel.explore_choices(lambda ch: tuple(ch.choose(2, f"p{i}") for i in range(3)), 3,
                                lambda ch, out: seen.append(out))
    assert len(set(seen)) == 8, st
    # dependent choice points: a deviation opens a new point
    def run(ch):
        a = ch.choose(2, "a")
        b = ch.choose(3, "b") if a else 0
        return a, b
    seen.clear()
    kernel.explore_choices(run, 2, lambda ch, out: seen.append(out))
    assert sorted(set(seen)) == [(0, 0), (1, 0), (1, 1), (1, 2)], seen


def test_bfs():
    # counter modulo 5 with +1 / +2: closure has 5 states, 10 transitions
    class S:
        v = 0
    r = kernel.bfs(S, lambda s, ev: setattr(s, "v", (s.v + ev) % 5) or [], lambda s: (1, 2), lambda s: s.v)
    assert r["states"] == 5 and r["transitions"] == 10 and r["closed"], r


def test_sched_lost_update():
    # two threads doing a non-atomic increment through an interposed attribute: P=0 never loses, P>=1 does
    class Box:
        def __init__(self):
            self.v = 0
    vsched.interpose(Box, {"v"})

    def harness(s):
        b = Box()

        def inc():
            x = b.v
            b.v = x + 1
        s.spawn(inc, "a")
        s.spawn(inc, "b")
        return lambda: b.v
    st0 = vsched.explore_schedules(harness, 0)
    assert set(st0["outcomes"]) == {"2"}, st0
    st1 = vsched.explore_schedules(harness, 1)
    assert set(st1["outcomes"]) == {"1", "2"}, st1
    assert st1["executions"] > st0["executions"]


def test_sched_condition():
    # waiter/notifier with a lost wake-up bug: flag reset outside the lock
    def harness(s):
        cond = simenv.VCondition()
        state = {"flag": False}

        def waiter():
            with cond:
                state["flag"] = False
                cond.wait(1.0)
            return state["flag"]

        def notifier():
            with cond:
                state["flag"] = True
                cond.notify_all()
        w = s.spawn(waiter, "w")
        s.spawn(notifier, "n")
        return lambda: (w.res, round(simenv.W.now - 1.0e6, 3))
    st = vsched.explore_schedules(harness, 2)
    # either the waiter is woken (True, no time passes) or the notification came first (False at timeout)
    assert set(st["outcomes"]) == {"(True, 0.0)", "(False, 1.0)"}, st
    assert st["deadlocks"] == 0


def test_sched_deadlock():
    def harness(s):
        a, b = simenv.VLock(), simenv.VLock()

        def t1():
            with a:
                with b:
                    pass

        def t2():
            with b:
                with a:
                    pass
        s.spawn(t1, "t1")
        s.spawn(t2, "t2")
        return lambda: "done"
    st = vsched.explore_schedules(harness, 1)
    assert st["deadlocks"] > 0, st


def test_line_level_points():
    # an unsynchronised read-modify-write on a plain attribute (no interposer): invisible to attribute-level points,
    # found when every source line of this file is a scheduling point
    class Plain:
        v = 0

    def harness(s):
        b = Plain()

        def inc():
            x = b.v
            b.v = x + 1
        s.spawn(inc, "a")
        s.spawn(inc, "b")
        return lambda: b.v
    coarse = vsched.explore_schedules(harness, 1)
    assert set(coarse["outcomes"]) == {"2"}, coarse
    fine = vsched.explore_schedules(harness, 1, line_root=__file__)
    assert set(fine["outcomes"]) == {"1", "2"}, fine


def test_replay_divergence():
    try:
        ch = kernel.Chooser([5])
        ch.choose(2, "x")
    except simenv.HarnessError:
        return
    raise AssertionError("out-of-range choice must fail loudly")


def main():
    for name, fn in sorted(globals().items()):
        if name.startswith("test_"):
            fn()
            print("selftest", name, "ok")


if __name__ == "__main__":
    sys.path.insert(0, "/repo")
    main()
