"""Cooperative scheduler for explorer C: real OS threads, one running at a time.

Scheduling points: every operation of the virtual Lock / Condition / Queue /
sleep in ``mc.simenv``, every ``SimBus`` send, and every access to an
interposed attribute of a shared library object (``interpose``).  The scheduler
replays a prefix of choices and then always takes choice 0 (= keep running the
current thread if it is still enabled, else the lowest thread id).  Switching
away from a thread that is still enabled costs one preemption.

Timed waits become enabled by time-out only at quiescence (no other thread is
enabled); virtual time then jumps to the earliest deadline.
"""
import hashlib
import threading
import time as _rt

from . import simenv
from .simenv import HarnessError


class _T:
    __slots__ = ("name", "idx", "sem", "done", "blocked", "deadline", "res", "exc", "timedout", "th", "last_label")

    def __init__(self, name, idx):
        self.name = name
        self.idx = idx
        self.sem = threading.Semaphore(0)
        self.done = False
        self.blocked = None
        self.deadline = None
        self.res = None
        self.exc = None
        self.timedout = False
        self.last_label = None


_AFTER_CALL = {}


def _after_call_offsets(code):
    s = _AFTER_CALL.get(code)
    if s is None:
        import dis
        s, prev = set(), False
        for ins in dis.get_instructions(code):
            if prev:
                s.add(ins.offset)
            prev = ins.opname in ("CALL", "CALL_FUNCTION_EX", "CALL_KW")
        _AFTER_CALL[code] = s
    return s


class Deadlock(Exception):
    pass


class Scheduler:
    def __init__(self, choices=(), horizon=5000, watchdog=10.0, line_root=None, after_calls=False):
        self.choices = list(choices)
        self.ci = 0
        self.threads = []
        self.cur = None
        self.trace = []        # (n_enabled, chosen, preemption_cost_of_alternatives)
        self.pre = 0
        self.events = []
        self.horizon = horizon
        self.hit_horizon = False
        self.watchdog = watchdog
        self.main = threading.Semaphore(0)
        self.deadlock = None
        self._abort = False
        self.line_root = line_root     # when set: every source line executed under this path is a scheduling point
        # additionally: the instruction after every call inside a line (where CPython checks its eval breaker and a real
        # thread switch can happen between a call's return and the use of its result)
        self.after_calls = after_calls
        self._last_line_at = None

    def _tracer(self, frame, event, arg):
        if frame.f_code.co_filename.startswith(self.line_root):     # a path prefix or a tuple of prefixes
            if self.after_calls:
                frame.f_trace_opcodes = True
            return self._local_trace
        return None

    def _local_trace(self, frame, event, arg):
        if event == "line":
            if not self._abort and self.controlled():
                self._last_line_at = (id(frame), frame.f_lasti)
                self.point(("line", frame.f_code.co_name, frame.f_lineno))
        elif event == "opcode" and frame.f_lasti in _after_call_offsets(frame.f_code):
            if not self._abort and self.controlled() and self._last_line_at != (id(frame), frame.f_lasti):
                self.point(("after-call", frame.f_code.co_name, frame.f_lineno, frame.f_lasti))
        return self._local_trace

    # -- harness side
    def spawn(self, fn, name):
        t = _T(name, len(self.threads))

        def body():
            t.sem.acquire()
            if self._abort:
                t.done = True
                self.main.release()
                return
            if self.line_root:
                import sys
                sys.settrace(self._tracer)
            try:
                t.res = fn()
            except _Abort:
                pass
            except BaseException as e:  # noqa: BLE001
                t.exc = e
            t.done = True
            self.main.release()
        t.th = threading.Thread(target=body, daemon=True)
        self.threads.append(t)
        t.th.start()
        return t

    def note(self, ev):
        self.events.append(ev)

    def controlled(self):
        c = self.cur
        return c is not None and threading.current_thread() is c.th

    def enabled(self):
        return [t for t in self.threads if not t.done and t.blocked is None]

    def run(self):
        w = simenv.W
        w.sched = self
        try:
            while True:
                en = self.enabled()
                if not en:
                    timed = [t for t in self.threads if not t.done and t.deadline is not None]
                    if not timed:
                        if all(t.done for t in self.threads):
                            break
                        self.deadlock = [(t.name, repr(t.blocked)[:60]) for t in self.threads if not t.done]
                        break
                    t = min(timed, key=lambda t: (t.deadline, t.idx))
                    w.now = max(w.now, t.deadline)
                    t.blocked = None
                    t.deadline = None
                    t.timedout = True
                    en = [t]
                cur_enabled = self.cur in en
                if cur_enabled:
                    en.remove(self.cur)
                    en.insert(0, self.cur)
                if len(self.trace) >= self.horizon:
                    self.hit_horizon = True
                    break
                k = self.choices[self.ci] if self.ci < len(self.choices) else 0
                self.ci += 1
                if k >= len(en):
                    raise HarnessError(f"schedule replay divergence at point {self.ci - 1}: {k} >= {len(en)}")
                self.trace.append((len(en), k, 1 if cur_enabled else 0))
                if k > 0 and cur_enabled:
                    self.pre += 1
                self.cur = en[k]
                self.cur.sem.release()
                if not self.main.acquire(timeout=self.watchdog):
                    raise HarnessError(f"watchdog: thread {self.cur.name} blocked for real")
        finally:
            self._shutdown()
            w.sched = None

    def _shutdown(self):
        # release every unfinished thread so that it can unwind
        self._abort = True
        for t in self.threads:
            if not t.done:
                self.cur = t
                t.sem.release()
                if not self.main.acquire(timeout=self.watchdog):
                    raise HarnessError("could not unwind thread " + t.name)
        self.cur = None
        for t in self.threads:
            t.th.join(self.watchdog)

    # -- called from controlled threads
    def _yield(self):
        if self._abort:
            return          # unwinding after deadlock / horizon: points are no-ops
        me = self.cur
        self.main.release()
        me.sem.acquire()
        if self._abort:
            raise _Abort()

    def point(self, label=None):
        me = self.cur
        me.last_label = label
        # fast path (no hand-over to the scheduler thread): the running thread stays enabled and the schedule says
        # "continue"; records exactly what run() would record for this point
        if not self._abort and len(self.trace) < self.horizon:
            k = self.choices[self.ci] if self.ci < len(self.choices) else 0
            if k == 0:
                n = 0
                for t in self.threads:
                    if not t.done and t.blocked is None:
                        n += 1
                self.ci += 1
                self.trace.append((n, 0, 1))
                return
        self._yield()

    def block(self, on, timeout=None):
        if self._abort:
            raise _Abort()
        me = self.cur
        me.blocked = on
        me.deadline = (simenv.W.now + timeout) if timeout is not None else None
        me.timedout = False
        self._yield()
        return not me.timedout

    def wake(self, on):
        for t in self.threads:
            if t.blocked is on:
                t.blocked = None
                t.deadline = None

    def wake_thread(self, t):
        t.blocked = None
        t.deadline = None


class _Abort(BaseException):
    pass


_get = object.__getattribute__


def interpose(cls, names):
    """Make reads/writes of the given data attributes of cls scheduling points."""
    names = frozenset(names)
    if getattr(cls, "_mc_interposed", None) == names:
        return

    def g(self, name):
        v = _get(self, name)
        if name in names:
            s = simenv.W.sched
            if s is not None and s.controlled():
                s.point(("rd", name))
        return v

    def st(self, name, val):
        if name in names:
            s = simenv.W.sched
            if s is not None and s.controlled():
                s.point(("wr", name))
        object.__setattr__(self, name, val)
    cls.__getattribute__ = g
    cls.__setattr__ = st
    cls._mc_interposed = names


def explore_schedules(harness, bound, max_exec=None, on_exec=None, horizon=5000, first_dev_range=None,
                      deviation_cost="preemption", line_root=None, after_calls=False):
    """DFS over schedules with at most ``bound`` preemptions.

    ``harness()`` must create a fresh world + scheduler-independent objects and
    return ``(setup, result)``: it is called as ``h = harness(sched)`` and must
    spawn its threads on ``sched`` and return a callable producing the outcome
    after the run.
    Returns stats dict.
    """
    stats = {"executions": 0, "outcomes": {}, "max_points": 0, "with_preemption": 0,
             "capped": False, "horizon_hits": 0, "deadlocks": 0}
    if line_root:
        # warm-up (not counted): lazily initialised module state (caches, first-call imports) executes extra lines in the
        # first execution of a process; partitions of the schedule space by point index must all see the warm numbering
        simenv.new_world()
        s = Scheduler([], horizon=horizon, line_root=line_root, after_calls=after_calls)
        result = harness(s)
        s.run()
        result()
    stack = [([], 0)]
    while stack:
        prefix, _ = stack.pop()
        simenv.new_world()
        s = Scheduler(prefix, horizon=horizon, line_root=line_root, after_calls=after_calls)
        result = harness(s)
        s.run()
        out = result()
        stats["executions"] += 1
        stats["max_points"] = max(stats["max_points"], len(s.trace))
        if s.pre:
            stats["with_preemption"] += 1
        if s.hit_horizon:
            stats["horizon_hits"] += 1
        if s.deadlock:
            stats["deadlocks"] += 1
        if on_exec is not None:
            on_exec(s, out)
        key = repr(out)
        if len(key) > 120:
            # (outputs that carry an event log differ for nearly every schedule: keeping their text costs gigabytes
            # at a preemption bound of 3; the number of distinct outputs is what the evidence needs)
            key = hashlib.blake2b(key.encode(), digest_size=8).hexdigest()
        if key in stats["outcomes"] or len(stats["outcomes"]) < 200000:
            stats["outcomes"][key] = stats["outcomes"].get(key, 0) + 1
        else:
            stats["outcomes_not_kept"] = stats.get("outcomes_not_kept", 0) + 1
        if max_exec is not None and stats["executions"] >= max_exec:
            stats["capped"] = True
            break
        if stats["executions"] % 32 == 0 and simenv.expired():
            stats["capped"] = "deadline"
            break
        # children: deviate at every point after the prefix
        # cost model: "preemption" = only switching away from a still-enabled thread costs (CHESS);
        # "deviation" = every non-default choice costs 1 (also the free choice of who runs when the current thread blocks)
        every = deviation_cost == "deviation"
        pre = 0
        pre_at = []
        for (n, k, ce) in s.trace:
            pre_at.append(pre)
            if k > 0 and (ce or every):
                pre += 1
        for i in range(len(s.trace) - 1, len(prefix) - 1, -1):
            if not prefix and first_dev_range is not None and not (first_dev_range[0] <= i < first_dev_range[1]):
                continue        # partition of the schedule space by the position of the first deviation
            n, k, ce = s.trace[i]
            cost = pre_at[i] + (1 if (ce or every) else 0)
            if cost > bound:
                continue
            base = [t[1] for t in s.trace[:i]]
            for alt in range(n - 1, 0, -1):
                stack.append((base + [alt], cost))
    return stats


def replay(harness, case, line_root=None, after_calls=False, horizon=5000):
    """Re-run one recorded schedule the way it was explored: at the recorded granularity and, for line-level schedules,
    after the same uncounted warm-up execution (the point numbering of a cold process differs).  Returns (sched, outcome)."""
    if case.get("line_level") and line_root is None:
        import os
        import canopen
        line_root = os.path.dirname(os.path.abspath(canopen.__file__))
    if line_root:
        simenv.new_world()
        s = Scheduler([], horizon=horizon, line_root=line_root, after_calls=after_calls)
        result = harness(s)
        s.run()
        result()
    simenv.new_world()
    s = Scheduler(case["schedule"], horizon=horizon, line_root=line_root, after_calls=after_calls)
    result = harness(s)
    s.run()
    return s, result()


def replay_scheduler(case, **kw):
    """Scheduler for replaying ``case['schedule']`` at the granularity it was recorded at."""
    if case.get("line_level"):
        import os
        import canopen
        kw["line_root"] = os.path.dirname(os.path.abspath(canopen.__file__))
    return Scheduler(case["schedule"], **kw)


def explore_with_crosscheck(st, harness, bound, on_exec, case, line_bound=1):
    """Attribute-level exploration at ``bound`` followed by the own-the-nondeterminism cross-check: the same
    harness with every source line of the canopen package as a scheduling point (``line_bound`` preemptions) is
    judged by the same oracle and must not reach an outcome label the attribute-level exploration has not seen
    (otherwise some shared state is not instrumented: HARNESS-ERROR, not silence)."""
    import os
    import canopen

    def labelled(**kw):
        seen = set()
        orig = st.outcome

        def rec(k, n=1):
            seen.add(str(k))
            return orig(k, n)
        st.outcome = rec
        try:
            stats = explore_schedules(harness, on_exec=on_exec, **kw)
        finally:
            del st.outcome
        return stats, seen
    stats, coarse = labelled(bound=bound)
    root = os.path.dirname(os.path.abspath(canopen.__file__))
    nviol = len(st.violations)
    fine_stats, fine = labelled(bound=line_bound, line_root=root)
    st.count("line_level_schedules", fine_stats["executions"])
    for v in st.violations[nviol:]:
        if isinstance(v["case"], dict):
            v["case"]["line_level"] = True       # the recorded schedule is over line-level points: replay the same way
    if fine - coarse and len(st.violations) == nviol:
        # (when the line-level pass itself found violations they are reported as such; an unseen but *accepted*
        # outcome means the attribute-level instrumentation misses shared state)
        st.count("HARNESS:line-level exploration reached outcomes unseen at attribute level: %r (case %r)" %
                 (sorted(fine - coarse)[:3], case))
    return stats
