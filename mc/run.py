"""CLI of the canopen model-checking machinery.

    cd /verif && /venv/bin/python -m mc.run C07 --tier quick
    cd /verif && /venv/bin/python -m mc.run C07 --replay replays/C07-....json

Environment: VERIF_SEED (int), VERIF_TIER, VERIF_REPO (default /repo), VERIF_JOBS (default 16).
Exit 0: property held on everything explored (known findings are printed as KNOWN-FINDING lines).
Exit 1: at least one ``VIOLATION property=<id> replay=<path>`` line.
Exit 3: ``HARNESS-ERROR`` (the machinery lost control; nothing is claimed).
"""
import argparse
import hashlib
import importlib
import json
import multiprocessing
import os
import re
import sys
import time
import traceback

VERIF = os.path.dirname(os.path.dirname(os.path.abspath(__file__)))
OUT = os.environ.get("VERIF_OUT") or VERIF   # evidence/ and replays/ live here (scratch dir for mutant runs)


class Stats:
    """Coverage counters and verdicts of a (partial) run. Mergeable, picklable."""

    def __init__(self):
        self.evaluations = 0
        self.states = 0
        self.transitions = 0
        self.traces = 0
        self.nontrivial_n = 0          # distinct by construction
        self.nontrivial = set()        # distinct by key
        self.outcomes = {}
        self.samples = []
        self.caps = []
        self.counters = {}
        self.violations = []           # dicts: signature, case, expected, observed
        self.excluded = {}
        self.max_dev = None

    def count(self, key, n=1):
        self.counters[key] = self.counters.get(key, 0) + n

    def outcome(self, key, n=1):
        key = str(key)
        self.outcomes[key] = self.outcomes.get(key, 0) + n

    def exclude(self, why, n=1):
        self.excluded[why] = self.excluded.get(why, 0) + n

    def sample(self, s, cap=6):
        if len(self.samples) < cap:
            self.samples.append(s)

    def violation(self, signature, case, expected, observed):
        if sum(1 for v in self.violations if v["signature"] == signature) >= 25:
            self.count("violations_dropped:" + signature)
            return
        self.violations.append({"signature": signature, "case": case,
                                "expected": _short(expected), "observed": _short(observed)})

    def merge(self, o):
        self.evaluations += o.evaluations
        self.states += o.states
        self.transitions += o.transitions
        self.traces += o.traces
        self.nontrivial_n += o.nontrivial_n
        self.nontrivial |= o.nontrivial
        for k, v in o.outcomes.items():
            self.outcomes[k] = self.outcomes.get(k, 0) + v
        for k, v in o.counters.items():
            self.counters[k] = self.counters.get(k, 0) + v
        for k, v in o.excluded.items():
            self.excluded[k] = self.excluded.get(k, 0) + v
        for s in o.samples:
            self.sample(s)
        for c in o.caps:
            if c not in self.caps:
                self.caps.append(c)
        for v in o.violations:
            if sum(1 for x in self.violations if x["signature"] == v["signature"]) < 25:
                self.violations.append(v)
        if o.max_dev is not None:
            self.max_dev = o.max_dev if self.max_dev is None else max(self.max_dev, o.max_dev)

    def digest(self):
        d = (self.evaluations, self.states, self.transitions, self.traces, self.nontrivial_n,
             sorted(map(repr, self.nontrivial)), sorted(self.outcomes.items()),
             sorted(self.counters.items()), [(v["signature"], repr(v["observed"])) for v in self.violations])
        return hashlib.sha1(repr(d).encode()).hexdigest()


def _short(x, n=600):
    try:
        json.dumps(x)
        s = x
    except Exception:  # noqa: BLE001
        s = repr(x)
    if isinstance(s, str) and len(s) > n:
        s = s[:n] + "..."
    return s


def _slug(s):
    return re.sub(r"[^A-Za-z0-9_.-]+", "_", s)[:80]


def setup_repo():
    repo = os.environ.get("VERIF_REPO", "/repo")
    sys.path.insert(0, repo)
    sys.dont_write_bytecode = True
    import canopen
    src = os.path.dirname(os.path.abspath(canopen.__file__))
    if not src.startswith(os.path.abspath(repo)):
        raise SystemExit(f"HARNESS-ERROR canopen imported from {src}, not from {repo}")
    import logging
    logging.disable(logging.CRITICAL)
    return repo


_MOD = None
_HIST = []     # indices of the cases this process has run so far (hidden module-level state makes history matter)


def _expired():
    from . import simenv
    return simenv.expired()


def _worker(chunk):
    st = Stats()
    for idx, case in chunk:
        if _expired():
            # a changed tree can make single cases arbitrarily slow; what was explored so far is still reported
            if "deadline reached: remaining cases skipped" not in st.caps:
                st.caps.append("deadline reached: remaining cases skipped")
            st.count("cases_skipped_after_deadline")
            continue
        nv = len(st.violations)
        try:
            _MOD.run_case(case, st)
            for v in st.violations[nv:]:
                v["hist_idx"] = list(_HIST)
            _HIST.append(idx)
        except Exception as e:  # noqa: BLE001
            from .simenv import HarnessError
            if isinstance(e, HarnessError):
                st.count("HARNESS:" + str(e)[:300])
            else:
                st.count("HARNESS:exception in run_case " + repr(case)[:200] + " :: " +
                         traceback.format_exc()[-900:])
    return st


def _replay_sigs(case):
    chk = Stats()
    try:
        _MOD.run_case(case, chk)
    except Exception:  # noqa: BLE001
        pass
    return [x["signature"] for x in chk.violations]


def _in_child(fn, arg):
    """fn(arg) in a forked child (a crash of the tree under test must not take the runner down); None if it died."""
    from . import kernel
    r = kernel.forkmap(fn, [arg], 1, strict=False)[0]
    return None if isinstance(r, kernel.WorkerDied) else r


def _det_digests(case):
    a, b = Stats(), Stats()
    _MOD.run_case(case, a)
    _MOD.run_case(case, b)
    return a.digest(), b.digest()


def _fresh_replay(pid, path):
    import subprocess
    try:
        r = subprocess.run([sys.executable, "-m", "mc.run", pid, "--replay", path], cwd=VERIF, capture_output=True,
                           text=True, timeout=600)
    except subprocess.TimeoutExpired:
        return False
    return r.returncode == 1 and "VIOLATION property=" in r.stdout


def _reproduce_with_history(pid, path, v, cases):
    """A violation that does not occur when its case runs alone may need the state that earlier cases left in the
    process (a module-level buffer or cache of the library). Find the shortest suffix of the cases that ran before
    it in the same worker that reproduces it in a fresh process, and make the replay file carry that history."""
    hist = v.get("hist_idx")
    if hist is None:
        return False
    rp = json.load(open(path))
    if _fresh_replay(pid, path):
        return True
    k = 1
    while True:
        rp["history"] = [cases[i] for i in hist[-k:]] if k else []
        with open(path, "w") as f:
            json.dump(rp, f, indent=1, default=repr)
        if _fresh_replay(pid, path):
            return True
        if k >= len(hist):
            return False
        k = min(len(hist), k * 2)


def run_check(pid, tier, seed, jobs, replay=None):
    global _MOD
    t0 = time.time()
    repo = setup_repo()
    from . import simenv, findings, evidence
    simenv.DEADLINE_AT = t0 + float(os.environ.get("VERIF_DEADLINE_S", "600" if tier == "quick" else "7200"))
    simenv.patch_modules()
    mod = importlib.import_module("checks." + pid.lower())
    _MOD = mod

    if replay is not None:
        rp = json.load(open(replay))
        st = Stats()
        for h in rp.get("history", []):
            # the violation needs the state earlier cases left behind in the process (module-level state of the library)
            mod.run_case(h, Stats())
        mod.run_case(rp["case"], st)
        hit = [v for v in st.violations if v["signature"] == rp["signature"]]
        for v in st.violations:
            print(f"replayed: signature={v['signature']} expected={v['expected']!r} observed={v['observed']!r}")
        if hit:
            print(f"VIOLATION property={pid} replay={replay}")
            return 1
        print("replay: the recorded violation does not occur on this tree")
        return 0

    cases = list(mod.cases(tier, seed))
    if not cases:
        print("HARNESS-ERROR no cases generated")
        return 3
    # determinism self-check: the first cases twice, in this process
    for i, case in enumerate(cases[:getattr(mod, "DETERMINISM_CASES", 2)]):
        d = _in_child(_det_digests, case)
        if d is None:
            print(f"HARNESS-ERROR the interpreter died running case {case!r}")
            return 3
        if d[0] != d[1]:
            print(f"HARNESS-ERROR nondeterministic case {case!r}")
            return 3

    indexed = list(enumerate(cases))
    total = Stats()
    if jobs <= 1 or len(cases) < 4:
        total.merge(_worker(indexed))
    else:
        nchunks = min(len(cases), jobs * 4)
        chunks = [indexed[i::nchunks] for i in range(nchunks)]
        from . import kernel
        for st in kernel.forkmap(_worker, chunks, jobs, strict=False):
            if isinstance(st, kernel.WorkerDied):
                # the tree under test killed the interpreter (stack or memory exhaustion): that part is not covered
                total.count("WORKER-DIED", 1)
                total.caps.append(f"a worker process died (exit code {st.code}): its cases are not covered")
            else:
                total.merge(st)
    if hasattr(mod, "run_main"):
        # parts that manage their own worker pool (level-synchronous parallel BFS)
        try:
            mod.run_main(tier, seed, jobs, total)
        except simenv.HarnessError as e:
            total.count("HARNESS:" + str(e)[:300])
    died = total.counters.get("WORKER-DIED", 0)
    harness = [k for k in total.counters if k.startswith("HARNESS:")]
    if not harness and hasattr(mod, "finish"):
        try:
            mod.finish(total, tier)
        except simenv.HarnessError as e:
            harness.append("HARNESS:vacuity guard: " + str(e))
    if harness:
        for h in harness[:5]:
            print("HARNESS-ERROR " + h[8:])
        return 3

    # verdicts
    known = findings.load(pid)
    os.makedirs(os.path.join(OUT, "replays"), exist_ok=True)
    by_sig = {}
    for v in total.violations:
        by_sig.setdefault(v["signature"], []).append(v)
    rc = 0
    n_known = n_new = 0
    unreproduced = []
    for sig in sorted(by_sig):
        vs = by_sig[sig]
        is_known = findings.is_known(known, sig)
        path = os.path.join(OUT, "replays", f"{pid}-{_slug(sig)}-0.json")
        believed = None
        for n, v in enumerate(vs):
            # believe a violation only if it reproduces from its replay file: alone (this process), else in a fresh
            # process, else after the cases that ran before it in its worker (only tried for the first witnesses)
            with open(path, "w") as f:
                json.dump({"property": pid, "signature": sig, "case": v["case"], "expected": v["expected"],
                           "observed": v["observed"], "tier": tier, "seed": seed}, f, indent=1, default=repr)
            sigs = _in_child(_replay_sigs, json.load(open(path))["case"]) or []
            if sig in sigs or (n < 2 and _reproduce_with_history(pid, path, v, cases)):
                believed = v
                break
        if believed is None:
            # not believed; the run is only usable if some other violation does reproduce
            unreproduced.append(sig)
            os.remove(path)
            continue
        v = believed
        if is_known:
            n_known += 1
            print(f"KNOWN-FINDING: property={pid} {sig}: {findings.text(known, sig)} (replay={path})")
        else:
            n_new += 1
            rc = 1
            print(f"VIOLATION property={pid} replay={path}")
            print(f"  signature={sig} expected={v['expected']!r} observed={v['observed']!r}")
    if died and not n_new:
        print(f"HARNESS-ERROR {died} worker process(es) died and no violation was established: nothing is claimed")
        return 3
    if unreproduced:
        for sig in unreproduced[:5]:
            print(f"UNREPRODUCED signature={sig} (observed once, did not recur from its replay file: not counted)")
        if not n_new and not n_known:
            print(f"HARNESS-ERROR {len(unreproduced)} observed violation(s), none reproduces from its replay file")
            return 3
    wall = time.time() - t0
    evidence.write(pid, mod, total, tier, seed, wall, n_new, n_known, repo)
    print(f"{pid} tier={tier} seed={seed}: evaluations={total.evaluations} states={total.states} "
          f"transitions={total.transitions} nontrivial={total.nontrivial_n + len(total.nontrivial)} "
          f"outcomes={len(total.outcomes)} violations={n_new} known={n_known} wall={wall:.1f}s")
    return rc


def main(argv=None):
    ap = argparse.ArgumentParser()
    ap.add_argument("property")
    ap.add_argument("--tier", default=os.environ.get("VERIF_TIER", "quick"), choices=["quick", "thorough"])
    ap.add_argument("--replay")
    ap.add_argument("--jobs", type=int, default=int(os.environ.get("VERIF_JOBS", "16")))
    a = ap.parse_args(argv)
    try:
        seed = int(os.environ.get("VERIF_SEED", "0") or 0)
    except ValueError:
        seed = 0
    if os.environ.get("PYTHONHASHSEED") != "0":
        os.environ["PYTHONHASHSEED"] = "0"
        os.environ["PYTHONDONTWRITEBYTECODE"] = "1"
        os.execv(sys.executable, [sys.executable, "-m", "mc.run"] + (argv or sys.argv[1:]))
    os.chdir(VERIF)
    try:
        rc = run_check(a.property.upper(), a.tier, seed, a.jobs, a.replay)
    except Exception as e:  # noqa: BLE001
        traceback.print_exc()
        print("HARNESS-ERROR " + repr(e)[:300])
        rc = 3
    sys.stdout.flush()
    sys.exit(rc)


if __name__ == "__main__":
    main()
