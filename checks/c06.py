"""C06 — refused SDO accesses report the standard abort code and change nothing.

Real LocalNode/SdoServer driven by raw strict request frames (so that toggles and lengths are
under the harness' control); every refusal kind is placed in every history of successful
transfers of length 0..2 and followed by successful transfers.  A second part puts the real
SdoClient in front (API-side clause) and a third decodes abort frames with every listed code.
"""
import itertools
import struct

from mc import simenv
from mc.refs import cia301, codec, sdo_client
from mc.sdoharness import ServerSim, build_od

ID = "C06"
LEVEL = "model_checking"
EXHAUSTIVE = True
RULE = ("history = (0..2 successful transfers from {expedited upload, segmented upload, expedited download, segmented "
        "download on top-level objects; download to a record member / an array member, upload of a never-written sibling "
        "member}) + one refusal + each of the 8 successful transfers as follow-up; refusal kinds: read "
        "write-only, write read-only/const (var, record member, array member; expedited and segmented), missing index, "
        "missing sub-index (record, array), every numeric type x payload length 0..9 != width (expedited and segmented), "
        "entry without value, wrong toggle on upload / download segment 1, 2, 3, 127..129, 255..257, ccs 7, block download; "
        "client part: same refusals through RemoteNode.sdo (fresh / after a transfer / after a timed-out transfer whose answer came late / after another refusal), abort code decoding for table codes, single bits, 0, "
        "0xFFFFFFFF, table code +-1. states = (history, step); non-trivial = histories with >= 1 predecessor transfer")
ASSUMPTIONS = [
    "wrong payload length: 0x06070010 or the specific 0x06070012 (too long) / 0x06070013 (too short) are all accepted",
    "entry without value: 0x060A0023 (resource not available) and 0x08000024 (no data available) are both accepted",
    "multiplexer of an abort: the request's for initiates; the running transfer's for segment requests; for ccs 7 the request's bytes 1..3, the running transfer's or zero",
]

PRE = ["ul_exp", "ul_seg", "dl_exp", "dl_seg", "dl_rec", "ul_rec", "dl_arr", "ul_arr"]


def entries():
    es = [
        dict(index=0x2400, name="p_small", type="UNSIGNED16", default=0x1234),
        dict(index=0x2401, name="p_str", type="VISIBLE_STRING", default="ABCDEFGHIJKLMNO"),
        dict(index=0x2402, name="p_dom", type="DOMAIN", default=None),
        dict(index=0x2403, name="p_long", type="VISIBLE_STRING", default="".join(chr(48 + i % 75) for i in range(2100))),
    ]
    i = 0
    for acc in ("rw", "ro", "wo", "const"):
        for t in ("UNSIGNED16", "VISIBLE_STRING"):
            es.append(dict(index=0x2000 + i, name=f"v_{acc}_{t}", type=t, access=acc,
                           default=7 if t == "UNSIGNED16" else "seven"))
            i += 1
    es.append(dict(index=0x3000, sub=0, kind="rec", name="n", type="UNSIGNED8", default=9, access="ro", parent_name="Rec"))
    es.append(dict(index=0x3100, sub=0, kind="arr", name="n", type="UNSIGNED8", default=9, access="ro", parent_name="Arr"))
    s = 1
    for acc in ("rw", "ro", "wo", "const"):
        for t in ("UNSIGNED16", "VISIBLE_STRING"):
            es.append(dict(index=0x3000, sub=s, kind="rec", name=f"r_{acc}_{t}", type=t, access=acc,
                           default=7 if t == "UNSIGNED16" else "seven", parent_name="Rec"))
            s += 1
    s = 1
    for acc in ("rw", "ro", "wo", "const"):
        es.append(dict(index=0x3100, sub=s, kind="arr", name=f"a_{acc}", type="INTEGER32", access=acc, default=-7,
                       parent_name="Arr"))
        s += 1
    # members that successful predecessor transfers write (p_*) next to siblings that are only ever read
    es.append(dict(index=0x3000, sub=9, kind="rec", name="p_rec", type="UNSIGNED16", default=0x55AA, parent_name="Rec"))
    es.append(dict(index=0x3000, sub=10, kind="rec", name="p_rec_sibling", type="VISIBLE_STRING", default="sibling-default",
                   parent_name="Rec"))
    es.append(dict(index=0x3000, sub=11, kind="rec", name="r_noval", type="UNSIGNED16", default=None, parent_name="Rec"))
    es.append(dict(index=0x3100, sub=5, kind="arr", name="p_arr", type="INTEGER32", default=-5, parent_name="Arr"))
    es.append(dict(index=0x3100, sub=6, kind="arr", name="p_arr_sibling", type="INTEGER32", default=-6, parent_name="Arr"))
    for k, t in enumerate(codec.INT_TYPES + ["REAL32", "REAL64"]):
        es.append(dict(index=0x2100 + k, name="n_" + t, type=t, default=1))
    es.append(dict(index=0x2200, name="noval_num", type="UNSIGNED16", default=None))
    es.append(dict(index=0x2201, name="noval_str", type="VISIBLE_STRING", default=None))
    return es


ENTRIES = entries()
BY_NAME = {e["name"]: e for e in ENTRIES}


def key_of(e):
    return e["index"], e.get("sub") or 0


def refusals():
    """(name, kind, params, acceptable codes)"""
    out = []
    for e in ENTRIES:
        k = key_of(e)
        acc = e.get("access", "rw")
        if acc == "wo":
            out.append((f"read-wo:{e['name']}", "upload", dict(key=k), {cia301.ABORT_WO}))
        if acc in ("ro", "const") and e["name"] != "n":
            data = b"\x01\x00" if e["type"] == "UNSIGNED16" else (b"\x01\x00\x00\x00" if e["type"] == "INTEGER32" else b"abc")
            for mode in ("exp", "seg_size", "seg_nosize"):
                out.append((f"write-{acc}:{mode}:{e['name']}", "download", dict(key=k, data=data, mode=mode),
                            {cia301.ABORT_RO}))
    for mode in ("exp", "seg_size"):
        out.append((f"write-missing-index:{mode}", "download", dict(key=(0x4000, 0), data=b"\x01", mode=mode),
                    {cia301.ABORT_NO_OBJECT}))
        out.append((f"write-missing-sub-rec:{mode}", "download", dict(key=(0x3000, 0x63), data=b"\x01", mode=mode),
                    {cia301.ABORT_NO_SUB}))
    out.append(("read-missing-index", "upload", dict(key=(0x4000, 0)), {cia301.ABORT_NO_OBJECT}))
    out.append(("read-missing-sub-rec", "upload", dict(key=(0x3000, 0x63)), {cia301.ABORT_NO_SUB}))
    out.append(("read-missing-sub-arr0", "upload", dict(key=(0x3100, 0)), None))   # sub 0 exists: not a refusal (control)
    out.append(("read-noval-num", "upload", dict(key=(0x2200, 0)), {cia301.ABORT_RESOURCE, cia301.ABORT_NO_DATA}))
    out.append(("read-noval-str", "upload", dict(key=(0x2201, 0)), {cia301.ABORT_RESOURCE, cia301.ABORT_NO_DATA}))
    out.append(("read-noval-rec-member", "upload", dict(key=(0x3000, 11)), {cia301.ABORT_RESOURCE, cia301.ABORT_NO_DATA}))
    for k, t in enumerate(codec.INT_TYPES + ["REAL32", "REAL64"]):
        w = (codec.int_info(t)[0] // 8) if t in codec.INT_TYPES else (4 if t == "REAL32" else 8)
        for L in range(0, 10):
            if L == w:
                continue
            codes = {cia301.ABORT_LEN, cia301.ABORT_LEN_HIGH if L > w else cia301.ABORT_LEN_LOW}
            if 1 <= L <= 4:
                out.append((f"wrong-length:exp:{t}:{L}", "download", dict(key=(0x2100 + k, 0), data=bytes(range(1, L + 1)),
                                                                        mode="exp"), codes))
            out.append((f"wrong-length:seg:{t}:{L}", "download",
                        dict(key=(0x2100 + k, 0), data=bytes(range(1, L + 1)), mode="seg_size" if L % 2 else "seg_nosize"),
                        codes))
    for which in (1, 2, 3, 127, 128, 129, 255, 256, 257):
        # (beyond 2: long transfers - a segment counter that wraps must not disturb the toggle rule)
        out.append((f"toggle:upload-segment-{which}", "ul_toggle", dict(which=which), {cia301.ABORT_TOGGLE}))
        out.append((f"toggle:download-segment-{which}", "dl_toggle", dict(which=which), {cia301.ABORT_TOGGLE}))
    out.append(("ccs7", "raw", dict(frame=bytes([0xE0]) + struct.pack("<HB", 0x2400, 0) + bytes(4)), {cia301.ABORT_CMD}))
    out.append(("ccs7-zero", "raw", dict(frame=bytes([0xE0]) + bytes(7)), {cia301.ABORT_CMD}))
    out.append(("block-download", "raw", dict(frame=bytes([0xC6]) + struct.pack("<HB", 0x2402, 0) + struct.pack("<L", 9),
                                              mux=struct.pack("<HB", 0x2402, 0)), {cia301.ABORT_CMD}))
    return out


REFUSALS = refusals()


def bounds(tier):
    return {"refusal_kinds": len(REFUSALS), "predecessor_histories": "length 0..2 over 8 transfers (73)",
            "followups": 8, "client_side": "all refusal kinds x {fresh, after 1 transfer, after a timed-out transfer whose answer came late, after another refusal}", "abort_codes": "table, single bits, 0, ~0, +-1"}


def cases(tier, seed):
    out = []
    hist = [[]] + [[a] for a in PRE] + [[a, b] for a in PRE for b in PRE]
    if tier == "thorough":
        hist += [[a, b, c] for a in PRE for b in PRE for c in PRE]
        # a refusal directly after another refusal (representative first refusals of every kind)
        reps = []
        seen_kinds = set()
        for i, r in enumerate(REFUSALS):
            key = r[0].split(":")[0] + ":" + r[1]
            if key not in seen_kinds and r[3] is not None:
                seen_kinds.add(key)
                reps.append(i)
        hist += [["refusal:%d" % i] for i in reps] + [["dl_seg", "refusal:%d" % i] for i in reps[:6]]
    idx = list(range(len(REFUSALS)))
    idx = idx[seed % len(idx):] + idx[:seed % len(idx)]
    for chunk in range(0, len(idx), 8):
        out.append({"part": "server", "refusals": idx[chunk:chunk + 8], "hists": hist})
    for chunk in range(0, len(idx), 40):
        out.append({"part": "client", "refusals": idx[chunk:chunk + 40]})
    out.append({"part": "codes"})
    out.append({"part": "dict-edit"})
    return out


# -------------------------------------------------------------------------------- server part
def do_pre(sim, name, n, st, rc):
    """A successful transfer on the probe objects; returns False on failure (itself reported)."""
    send = _strict(sim)
    try:
        if name == "ul_exp":
            want = sim.ref.current_value((0x2400, 0))
            got = sdo_client.upload(send, 0x2400, 0)
            ok = isinstance(got, bytes) and bytes(got) == want
        elif name == "ul_seg":
            want = sim.ref.current_value((0x2401, 0))
            got = sdo_client.upload(send, 0x2401, 0)
            ok = isinstance(got, bytes) and bytes(got) == want
        elif name == "dl_exp":
            want = bytes([0x40 + n, 0x11])
            got = sdo_client.download(send, 0x2400, 0, want, "exp")
            ok = got is None and sim.real_store().get((0x2400, 0)) == want
            sim.ref.store[(0x2400, 0)] = want
        elif name in ("dl_rec", "dl_arr"):
            key = (0x3000, 9) if name == "dl_rec" else (0x3100, 5)
            want = bytes([0x20 + n, 0x22]) if name == "dl_rec" else bytes([0x30 + n, 0x33, 0x33, 0x33])
            got = sdo_client.download(send, key[0], key[1], want, "exp")
            ok = got is None and sim.real_store().get(key) == want
            sim.ref.store[key] = want
        elif name in ("ul_rec", "ul_arr"):
            # a sibling member of the one the dl_* transfers write: always its default value
            key = (0x3000, 10) if name == "ul_rec" else (0x3100, 6)
            want = sim.ref.current_value(key)
            got = sdo_client.upload(send, key[0], key[1])
            ok = isinstance(got, bytes) and bytes(got) == want
        else:
            want = bytes([0x60 + n]) + b"-nine-by"
            got = sdo_client.download(send, 0x2402, 0, want, "seg_size")
            ok = got is None and sim.real_store().get((0x2402, 0)) == want
            sim.ref.store[(0x2402, 0)] = want
    except sdo_client.ProtocolViolation as e:
        st.violation(f"C06:successful-transfer:{name}:{e.kind}", rc, "a conformant transfer", str(e))
        return False
    if not ok:
        st.violation(f"C06:successful-transfer:{name}:wrong-result", rc, want.hex(), repr(got))
    return ok


def _strict(sim):
    def send(fr):
        rs = sim.send(fr)
        if sim.exc is not None:
            raise sdo_client.ProtocolViolation("exception", repr(sim.exc)[:160])
        return rs
    return send


def do_refusal(sim, ref):
    """Returns (response frames of the refused step, expected mux or set of muxes)."""
    name, kind, p, codes = ref
    send = sim.send
    if kind == "upload":
        mux = struct.pack("<HB", *p["key"])
        return send(bytes([0x40]) + mux + bytes(4)), {mux}
    if kind == "download":
        mux = struct.pack("<HB", *p["key"])
        data, mode = p["data"], p["mode"]
        if mode == "exp":
            return send(bytes([0x23 | ((4 - len(data)) << 2)]) + mux + data.ljust(4, b"\0")), {mux}
        rs = send(bytes([0x21 if mode == "seg_size" else 0x20]) + mux +
                  (struct.pack("<L", len(data)) if mode == "seg_size" else bytes(4)))
        if rs and rs[0][0] == 0x80:
            return rs, {mux}              # refused at initiate: fine
        t, pos = 0, 0
        while True:
            chunk = data[pos:pos + 7]
            pos += len(chunk)
            c = 1 if pos >= len(data) else 0
            rs = send(bytes([(t << 4) | ((7 - len(chunk)) << 1) | c]) + chunk.ljust(7, b"\0"))
            if c or not rs or rs[0][0] == 0x80:
                return rs, {mux}
            t ^= 1
    if kind == "ul_toggle":
        mux = struct.pack("<HB", 0x2401 if p["which"] <= 2 else 0x2403, 0)
        send(bytes([0x40]) + mux + bytes(4))
        t = 0
        for _ in range(p["which"] - 1):
            send(bytes([0x60 | (t << 4)]) + bytes(7))
            t ^= 1
        return send(bytes([0x60 | ((t ^ 1) << 4)]) + bytes(7)), {mux}
    if kind == "dl_toggle":
        mux = struct.pack("<HB", 0x2402, 0)
        send(bytes([0x20]) + mux + bytes(4))
        t = 0
        for _ in range(p["which"] - 1):
            send(bytes([(t << 4)]) + b"ABCDEFG")
            t ^= 1
        return send(bytes([((t ^ 1) << 4)]) + b"HIJKLMN"), {mux}
    if kind == "raw":
        fr = p["frame"]
        if "mux" in p:
            return send(fr), {p["mux"]}
        return send(fr), {fr[1:4], bytes(3), "running"}
    raise KeyError(kind)


def run_server(case, st):
    for ri in case["refusals"]:
        ref = REFUSALS[ri]
        name, kind, p, codes = ref
        sigbase = name.split(":")[0] + (":" + name.split(":")[1] if name.startswith(("wrong-length", "toggle", "write")) else "")
        for hist in case["hists"]:
            rc = {"part": "server", "refusals": [ri], "hists": [hist]}
            sim = ServerSim(ENTRIES)
            ok = True
            for n, pre in enumerate(hist):
                if pre.startswith("refusal:"):
                    do_refusal(sim, REFUSALS[int(pre.split(":")[1])])
                    sim.ref.store = dict(sim.real_store())
                else:
                    ok = ok and do_pre(sim, pre, n, st, rc)
            if not ok:
                continue
            store_before = sim.real_store()
            cb_before = list(sim.cb_log)
            last_mux = struct.pack("<HB", sim.node.sdo._index or 0, sim.node.sdo._subindex or 0)
            rs, muxes = do_refusal(sim, ref)
            st.evaluations += 1
            st.states += len(hist) + 2
            st.transitions += len(hist) + 1
            st.traces += 1
            if hist:
                st.nontrivial_n += 1
            if sim.exc is not None:
                st.violation(f"C06:exception:{sigbase}", rc, "an abort frame", repr(sim.exc)[:160])
                continue
            if codes is None:
                if len(rs) != 1 or rs[0][0] == 0x80:
                    st.violation(f"C06:control-refused:{sigbase}", rc, "a normal response", [r.hex() for r in rs])
                continue
            if len(rs) != 1 or len(rs[0]) != 8 or rs[0][0] != 0x80:
                st.violation(f"C06:not-aborted:{sigbase}", rc, "exactly one abort frame", [r.hex() for r in rs])
                continue
            r = rs[0]
            code = struct.unpack_from("<L", r, 4)[0]
            if code not in codes:
                st.violation(f"C06:code:{sigbase}", rc, [f"0x{c:08X}" for c in sorted(codes)], f"0x{code:08X}")
            allowed = {m for m in muxes if m != "running"}
            if "running" in muxes:
                allowed.add(last_mux)
            if r[1:4] not in allowed:
                st.violation(f"C06:mux:{sigbase}", rc, sorted(m.hex() for m in allowed), r[1:4].hex())
            if sim.real_store() != store_before:
                st.violation(f"C06:store-changed:{sigbase}", rc, "store unchanged", "changed")
            if sim.cb_log != cb_before:
                st.violation(f"C06:write-callback:{sigbase}", rc, "no write callback for a refused write",
                             repr(sim.cb_log[len(cb_before):])[:200])
            st.outcome(f"refused 0x{code:08X}")
            # follow-up: each successful transfer still works (the refusal did not poison the server)
            # (order rotates with refusal and history so that every follow-up comes first somewhere: an earlier
            # follow-up can heal what the refusal left behind)
            rot = (ri + len(hist)) % len(PRE)
            for n, post in enumerate(PRE[rot:] + PRE[:rot]):
                do_pre(sim, post, 8 + n, st, dict(rc, followup=post))
                st.transitions += 1
    st.sample({"refusals": [REFUSALS[i][0] for i in case["refusals"][:3]], "histories": len(case["hists"])}, cap=4)


# -------------------------------------------------------------------------------- client part
def run_client(case, st):
    import canopen
    for ri in case["refusals"]:
        name, kind, p, codes = REFUSALS[ri]
        if kind not in ("upload", "download") or codes is None:
            continue
        for pre in (None, "ul_seg", "late-ul", "refused-ul"):
            simenv.new_world()
            bus = simenv.SimBus("inline")
            a, b = canopen.Network(), canopen.Network()
            bus.attach(a, "client")
            bus.attach(b, "server")
            od = build_od(ENTRIES)
            remote = a.add_node(5, od)
            local = b.create_node(5, build_od(ENTRIES))
            cb = []
            local.add_write_callback(lambda **kw: cb.append((kw["index"], kw["subindex"], bytes(kw["data"]))))
            rc = {"part": "client", "refusals": [ri], "pre": pre}
            if pre == "ul_seg":
                remote.sdo.upload(0x2401, 0)
            elif pre == "late-ul":
                # an earlier transfer on the same client failed: the server's answer arrived after the client gave up
                held, orig = [], b.send_message
                b.send_message = lambda cid, data, remote=False: held.append((cid, bytes(data)))
                try:
                    remote.sdo.upload(0x2400, 0)
                    raise simenv.HarnessError("late predecessor did not time out")
                except canopen.SdoCommunicationError:
                    pass
                b.send_message = orig
                for cid, d in held:
                    bus.inject(cid, d)
            elif pre == "refused-ul":
                try:
                    remote.sdo.upload(0x4000, 0)
                except canopen.SdoAbortedError:
                    pass
            before = {i: dict(s) for i, s in local.data_store.items()}
            n0 = len(bus.log)
            st.evaluations += 1
            st.states += 2
            st.transitions += 1
            st.traces += 1
            if pre:
                st.nontrivial_n += 1
            try:
                if kind == "upload":
                    remote.sdo.upload(*p["key"])
                else:
                    remote.sdo.download(p["key"][0], p["key"][1], p["data"], force_segment=p["mode"] != "exp")
                st.violation(f"C06:client:no-error:{name.split(':')[0]}", rc, "SdoAbortedError", "returned normally")
                continue
            except canopen.SdoAbortedError as e:
                got = e.code
            except Exception as e:  # noqa: BLE001
                st.violation(f"C06:client:wrong-exception:{name.split(':')[0]}:{type(e).__name__}", rc, "SdoAbortedError",
                             repr(e)[:160])
                continue
            aborts = [d for (src, cid, d, rem, ext) in bus.log[n0:] if cid == 0x585 and d[0] == 0x80]
            if len(aborts) != 1:
                st.violation(f"C06:client:abort-frames:{name.split(':')[0]}", rc, "one abort frame on the wire", len(aborts))
                continue
            wire = struct.unpack_from("<L", aborts[0], 4)[0]
            if got != wire:
                st.violation("C06:client:code-differs-from-wire", rc, f"0x{wire:08X}", f"0x{got:08X}")
            if wire not in codes:
                st.violation(f"C06:client:code:{name.split(':')[0]}", rc, [f"0x{c:08X}" for c in sorted(codes)], f"0x{wire:08X}")
            if {i: dict(s) for i, s in local.data_store.items()} != before or cb:
                st.violation(f"C06:client:store-or-callback:{name.split(':')[0]}", rc, "nothing changed", repr(cb)[:100])
            st.outcome("client raised SdoAbortedError")


def run_codes(case, st):
    import canopen
    codes = set(cia301.ALL_ABORT_CODES) | {1 << b for b in range(32)} | {0, 0xFFFFFFFF}
    codes |= {c + 1 for c in cia301.ALL_ABORT_CODES} | {c - 1 for c in cia301.ALL_ABORT_CODES}
    if "only" in case:
        codes = {case["only"]}
    for code in sorted(codes):
        for where in ("upload-init", "upload-seg", "download-init", "download-seg"):
            simenv.new_world()
            bus = simenv.SimBus("inline")
            net = canopen.Network()
            bus.attach(net, "client")
            state = {"n": 0}

            def dev(cid, data, remote, _code=code, _where=where, _s=state):
                if cid != 0x605:
                    return []
                _s["n"] += 1
                ab = [(0x585, cia301.abort_frame(0x2000, 0, _code))]
                if _where.endswith("init"):
                    return ab
                if _s["n"] == 1:
                    if _where.startswith("upload"):
                        return [(0x585, bytes([0x41]) + data[1:4] + struct.pack("<L", 9))]
                    return [(0x585, bytes([0x60]) + data[1:4] + bytes(4))]
                return ab
            bus.add_device(dev, "server")
            node = net.add_node(5, build_od(ENTRIES[:3]))
            st.evaluations += 1
            st.nontrivial.add((code, where))
            try:
                if where.startswith("upload"):
                    node.sdo.upload(0x2000, 0)
                else:
                    node.sdo.download(0x2000, 0, b"123456789" if where.endswith("seg") else b"\x01\x02")
                st.violation(f"C06:decode:no-error:{where}", dict(case, only=code), "SdoAbortedError", "returned")
            except canopen.SdoAbortedError as e:
                if e.code != code:
                    st.violation(f"C06:decode:code:{where}", dict(case, only=code), f"0x{code:08X}", f"0x{e.code:08X}")
                str(e)
            except Exception as e:  # noqa: BLE001
                st.violation(f"C06:decode:wrong-exception:{where}:{type(e).__name__}", dict(case, only=code),
                             "SdoAbortedError", repr(e)[:120])
    st.states += 1
    st.transitions += len(codes) * 4
    st.sample({"abort codes decoded": len(codes)})


def run_dict_edit(case, st):
    """The application edits the dictionary it gave to the node (removes an entry or a member, redefines an index as
    read-only / as another type) AFTER the entry has been served once: refusals follow the dictionary as it is now."""
    from canopen.objectdictionary import ODVariable, datatypes as dt
    edits = [
        ("delete-index", (0x2400, 0), lambda od: od.__delitem__(0x2400), {cia301.ABORT_NO_OBJECT}, {cia301.ABORT_NO_OBJECT}),
        ("delete-member", (0x3000, 9), lambda od: od[0x3000].__delitem__(9), {cia301.ABORT_NO_SUB}, {cia301.ABORT_NO_SUB}),
        ("redefine-read-only", (0x2400, 0), None, None, {cia301.ABORT_RO}),
        ("redefine-other-type", (0x2400, 0), None, None, {cia301.ABORT_LEN, cia301.ABORT_LEN_HIGH, cia301.ABORT_LEN_LOW}),
    ]
    for name, key, fn, read_codes, write_codes in edits:
        for first in ("upload", "download", "both"):
            sim = ServerSim(ENTRIES)
            st.evaluations += 1
            st.nontrivial_n += 1
            rc = dict(case, edit=name, first=first)
            mux = struct.pack("<HB", *key)
            # the entry is served once before the edit
            if first in ("upload", "both"):
                sim.send(bytes([0x40]) + mux + bytes(4))
            if first in ("download", "both"):
                sim.send(bytes([0x2B]) + mux + b"\x34\x12\0\0")
            od = sim.node.object_dictionary
            if name == "redefine-read-only":
                v = ODVariable("p_small", 0x2400)
                v.data_type, v.access_type, v.default = dt.UNSIGNED16, "ro", 7
                del od[0x2400]
                od.add_object(v)
            elif name == "redefine-other-type":
                v = ODVariable("p_small", 0x2400)
                v.data_type, v.access_type, v.default = dt.UNSIGNED32, "rw", 7
                del od[0x2400]
                od.add_object(v)
            else:
                fn(od)
            store_before = sim.real_store()
            cb_before = list(sim.cb_log)
            checks = []
            if read_codes:
                checks.append(("read", bytes([0x40]) + mux + bytes(4), read_codes))
            checks.append(("write", bytes([0x2B]) + mux + b"\x78\x56\0\0", write_codes))
            for what, fr, codes in checks:
                rs = sim.send(fr)
                st.transitions += 1
                if sim.exc is not None:
                    st.violation(f"C06:dict-edit:{name}:{what}:exception", rc, "an abort frame", repr(sim.exc)[:120])
                    continue
                if len(rs) != 1 or rs[0][0] != 0x80:
                    st.violation(f"C06:dict-edit:{name}:{what}:not-aborted", rc, [f"0x{c:08X}" for c in sorted(codes)], [r.hex() for r in rs])
                    continue
                code = struct.unpack_from("<L", rs[0], 4)[0]
                if code not in codes:
                    st.violation(f"C06:dict-edit:{name}:{what}:code", rc, [f"0x{c:08X}" for c in sorted(codes)], f"0x{code:08X}")
            if sim.real_store() != store_before or sim.cb_log != cb_before:
                st.violation(f"C06:dict-edit:{name}:store-or-callback-changed", rc, "nothing changed", repr(sim.cb_log[len(cb_before):])[:100])
            st.outcome("dict-edit refused")


def run_case(case, st):
    if case["part"] == "dict-edit":
        return run_dict_edit(case, st)
    {"server": run_server, "client": run_client, "codes": run_codes}[case["part"]](case, st)


def finish(st, tier):
    want = {"refused 0x06010001", "refused 0x06010002", "refused 0x06020000", "refused 0x06090011", "refused 0x06070010",
            "refused 0x05030000", "refused 0x05040001"}
    missing = [w for w in want if w not in st.outcomes]
    if missing and not st.violations:
        raise simenv.HarnessError("refusal kinds never observed: %s" % missing)
