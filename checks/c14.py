"""C14 — exporting a dictionary to EDS/DCF and importing it again loses nothing.

Exhaustive enumeration of a dictionary grammar: dictionaries are built in code (and, for the
"has original text" path, obtained by import), exported with canopen.export_od to a file name, an
open text stream and standard output, imported again and compared attribute by attribute; plus
histories of two exports in one process.
"""
import contextlib
import io
import os
import re
import shutil
import tempfile

from mc import simenv
from mc.refs import eds_writer as W

ID = "C14"
LEVEL = "exploration"
EXHAUSTIVE = True
RULE = ("per variable the full product data type (25 codes) x default {none, 0, min, max, -1, text with blanks/%/=, bytes, "
        "empty} x limits {none, both range ends, low only, high only, 0} x document type {eds, dcf}, with factor, unit, "
        "description, storage location, PDO mapping, access type, index (8 values over the areas) and kind {variable, "
        "record, array with 1, 2, 20 members} rotated; every dictionary of the pairs/destination set is exported to all three "
        "destinations x both document types; two-export histories. non-trivial = dictionaries with a negative or boundary "
        "default, a limit, a structured object or special characters")
ASSUMPTIONS = [
    "compared attributes are exactly those the statement lists; FileInfo time stamps are masked when documents are compared",
    "limits are generated for integer types only; comments have no trailing newline; names are unique without '.' or leading/trailing blanks",
    "an EDS carries no node id: dictionaries with $NODEID-relative defaults are re-imported with the node id in force",
]
TYPES = [1, 2, 3, 4, 5, 6, 7, 8, 9, 0xA, 0xB, 0xC, 0xD, 0xF, 0x10, 0x11, 0x12, 0x13, 0x14, 0x15, 0x16, 0x18, 0x19, 0x1A, 0x1B]
INDEXES = [0x1000, 0x1001, 0x1018, 0x1400, 0x2000, 0x5FFF, 0x6000, 0x9FFF]
ATTRS = ("name", "index", "subindex", "data_type", "access_type", "pdo_mappable", "default", "min", "max", "storage_location",
         "factor", "unit", "description")


def bounds(tier):
    return {"types": len(TYPES), "defaults": 8, "limits": 5, "doc_types": 2, "destinations": 3}


def type_range(t):
    if t in W.SIGNED_WIDTH:
        w = W.SIGNED_WIDTH[t]
        return -(1 << (w - 1)), (1 << (w - 1)) - 1
    if t in W.UNSIGNED_WIDTH:
        return 0, (1 << W.UNSIGNED_WIDTH[t]) - 1
    return None


def defaults_for(t):
    r = type_range(t)
    if r is not None:
        lo, hi = r
        return [None, 0, lo, hi, -1 if lo < 0 else 1, (lo // 2) if lo < 0 else hi // 2]
    if t == 1:
        return [None, True, False]
    if t in W.REAL:
        return [None, 1.5, -0.0, 1e-30, -2.25e10]
    if t in W.TEXT:
        return [None, "two words", "p%c=q", "", "semi;colon # hash"]
    if t in W.BYTES:
        return [None, b"\x00\x01\xff", b""]
    return [None, 0, 5]


def limits_for(t):
    r = type_range(t)
    if t in W.REAL:
        return [(None, None), (-2.5, 1.0e6), (-1e-3, None), (None, 0.75), (0.0, 0.0)]
    if r is None:
        return [(None, None)]
    lo, hi = r
    return [(None, None), (lo, hi), (lo, None), (None, hi), (0, 0)]


def cases(tier, seed):
    out = []
    for t in TYPES:
        for rot in range(1 if tier == "quick" else 12):
            out.append({"part": "vars", "type": t, "seed": seed + rot * 5})
    out.append({"part": "kinds"})
    out.append({"part": "destinations"})
    out.append({"part": "history"})
    out.append({"part": "imported-text"})
    return out


def new_od():
    from canopen.objectdictionary import ObjectDictionary
    return ObjectDictionary()


def mkvar(name, index, sub, t, **kw):
    from canopen.objectdictionary import ODVariable
    v = ODVariable(name, index, sub)
    v.data_type = t
    for k, val in kw.items():
        setattr(v, k, val)
    return v


def roundtrip(od, doc, dest="stream"):
    """export then import; returns (imported dictionary, exported text)."""
    import canopen
    if dest == "stream":
        s = io.StringIO()
        canopen.export_od(od, s, doc)
        text = s.getvalue()
    elif dest == "stdout":
        buf = io.StringIO()
        with contextlib.redirect_stdout(buf):
            canopen.export_od(od, None, doc)
        text = buf.getvalue()
    else:
        d = tempfile.mkdtemp(prefix="c14-", dir="/var/tmp")
        try:
            p = os.path.join(d, "out." + doc)
            canopen.export_od(od, p)
            text = open(p).read()
        finally:
            shutil.rmtree(d, ignore_errors=True)
    f = io.StringIO(text)
    f.name = "y." + doc
    # an EDS does not carry a node id: the importer is given the one in force, as for the original dictionary
    return canopen.import_od(f, od.node_id if doc == "eds" and getattr(od, "_verif_relative", False) else None), text


def same(a, b):
    if a in (None, "") and b in (None, ""):
        return True
    if isinstance(a, float) or isinstance(b, float):
        try:
            return float(a) == float(b) and (str(float(a)) == str(float(b)))
        except (TypeError, ValueError):
            return False
    return a == b and not (isinstance(a, bool) != isinstance(b, bool) and False)


def cmp_var(a, b, doc, st, rc, tag):
    ok = True
    for at in ATTRS + (("value",) if doc == "dcf" else ()):
        va, vb = getattr(a, at), getattr(b, at)
        if not same(va, vb):
            ok = False
            cls = ""
            if at in ("default", "value"):
                cls = ":negative" if isinstance(va, (int, float)) and not isinstance(va, bool) and va < 0 else ":other"
            if at in ("min", "max"):
                cls = f":w{W.SIGNED_WIDTH.get(a.data_type, W.UNSIGNED_WIDTH.get(a.data_type))}"
            st.violation(f"C14:{doc}:{at}{cls}:{tag}", rc, repr(va)[:80], repr(vb)[:80])
    return ok


def cmp_od(od, od2, doc, st, rc, tag):
    from canopen.objectdictionary import ODVariable
    ok = True
    if sorted(od) != sorted(od2):
        st.violation(f"C14:{doc}:objects:{tag}", rc, [hex(i) for i in od], [hex(i) for i in od2])
        return False
    for idx in od:
        a, b = od[idx], od2[idx]
        if type(a) is not type(b):
            st.violation(f"C14:{doc}:kind:{tag}", rc, type(a).__name__, type(b).__name__)
            ok = False
            continue
        if a.name != b.name or od2[a.name] is not b:
            st.violation(f"C14:{doc}:name:{tag}", rc, a.name, b.name)
            ok = False
        if isinstance(a, ODVariable):
            ok &= cmp_var(a, b, doc, st, rc, tag)
        else:
            if sorted(a.subindices) != sorted(b.subindices):
                st.violation(f"C14:{doc}:sub-indices:{tag}", rc, sorted(a.subindices), sorted(b.subindices))
                ok = False
                continue
            if (a.storage_location or None) != (b.storage_location or None):
                st.violation(f"C14:{doc}:group-storage-location:{tag}", rc, a.storage_location, b.storage_location)
                ok = False
            for s in a.subindices:
                ok &= cmp_var(a[s], b[s], doc, st, rc, tag)
    if od.comments != od2.comments:
        st.violation(f"C14:{doc}:comments:{tag}", rc, od.comments, od2.comments)
        ok = False
    di, di2 = od.device_information, od2.device_information
    for at in ("vendor_name", "vendor_number", "product_name", "product_number", "revision_number", "order_code",
               "simple_boot_up_master", "simple_boot_up_slave", "granularity", "dynamic_channels_supported", "group_messaging",
               "nr_of_RXPDO", "nr_of_TXPDO", "LSS_supported", "allowed_baudrates"):
        if getattr(di, at) != getattr(di2, at):
            st.violation(f"C14:{doc}:device-info:{at}", rc, repr(getattr(di, at)), repr(getattr(di2, at)))
            ok = False
    if doc == "dcf" and (od2.node_id, od2.bitrate) != (od.node_id, od.bitrate):
        st.violation("C14:dcf:node-id-or-bitrate", rc, (od.node_id, od.bitrate), (od2.node_id, od2.bitrate))
        ok = False
    return ok


def decorate(od, k):
    od.node_id = (7, 127, 1, None, 5, None)[k % 6]
    od.bitrate = (250000, 1000000, 10000, 500000, None, None)[k % 6]
    od.comments = ("", "single line", "line one\nline two", "c1\n\nc3", "\n".join("line %d of ten" % i for i in range(1, 11)),
                   "\n".join("l%d" % i for i in range(1, 13)), "\n".join("c%d" % (i * 7 % 26) for i in range(1, 121)))[k % 7]
    di = od.device_information
    di.vendor_name, di.vendor_number = "ACME %d" % k, 0x1234 + k
    di.product_name, di.product_number, di.revision_number, di.order_code = "Prod uct", 7 + k, 0x00010002, "OC-1/2"
    di.simple_boot_up_master, di.simple_boot_up_slave = bool(k % 2), not bool(k % 2)
    di.granularity = (8, 0, 64, 1)[k % 4]
    di.dynamic_channels_supported, di.group_messaging, di.LSS_supported = False, bool(k % 3 == 0), bool(k % 2)
    di.nr_of_RXPDO, di.nr_of_TXPDO = 4, 12 + k % 3
    di.allowed_baudrates = ({250000, 1000000}, set(), {10000, 20000, 50000, 125000, 250000, 500000, 800000, 1000000})[k % 3]


def run_vars(case, st):
    t = case["type"]
    k = case.get("seed", 0)
    combos = [(d, lim, doc) for d in defaults_for(t) for lim in limits_for(t) for doc in ("eds", "dcf")]
    k0 = k
    for ci, (d, lim, doc) in enumerate(combos):
        if "combo" in case and ci != case["combo"]:
            continue
        k = k0 + ci + 1
        od = new_od()
        idx = INDEXES[k % len(INDEXES)]
        v = mkvar(("my var", "a%b=c", "Name with  two blanks", "x")[k % 4], idx, 0, t, default=d, min=lim[0], max=lim[1],
                  value=(d if k % 2 else (defaults_for(t)[-1])) if doc == "dcf" else None,
                  factor=(1, 0.5, -2, 1e-3)[k % 4], unit=("", "mm")[k % 2], description=("", "some text, with = and %")[(k // 2) % 2],
                  storage_location=(None, "RAM", "PERSIST_COMM")[k % 3], pdo_mappable=bool(k % 2),
                  access_type=("rw", "ro", "wo", "const", "rww", "rwr")[k % 6])
        od.add_object(v)
        decorate(od, k)
        st.evaluations += 1
        rc = dict(case, combo=ci)
        if d not in (None, 0) or lim != (None, None):
            st.nontrivial_n += 1
        try:
            od2, text = roundtrip(od, doc)
        except Exception as e:  # noqa: BLE001
            st.violation(f"C14:{doc}:raises:{type(e).__name__}:var", rc, "exported and imported", repr(e)[:150])
            continue
        if cmp_od(od, od2, doc, st, rc, "var"):
            st.outcome("round trip ok")
    st.sample({"type": t, "dictionaries": len(combos)}, cap=3)


def build_kinds(tag, nmembers):
    from canopen.objectdictionary import ODArray, ODRecord
    od = new_od()
    rec = ODRecord("Rec " + tag, 0x2000)
    members = [("n", 5, nmembers), ("a b", 3, -5 if tag == "neg" else 5), ("c%d=e", 9, "x y")] + \
              [("m%d" % i, 0x15, -(1 << 62) + i) for i in range(3, nmembers + 1)]
    for s, (nm, ty, de) in enumerate(members[:nmembers + 1]):
        rec.add_member(mkvar(nm, 0x2000, s, ty, default=de, access_type="rw", pdo_mappable=bool(s % 2)))
    rec.storage_location = "ROM"
    od.add_object(rec)
    arr = ODArray("Arr", 0x6000)
    for s in range(0, nmembers + 1):
        arr.add_member(mkvar("e%d" % s, 0x6000, s, 5 if s == 0 else 4, default=s - 3 if s else nmembers, min=None if s == 0 else -10,
                             max=None if s == 0 else 1000))
    od.add_object(arr)
    od.add_object(mkvar("Device type", 0x1000, 0, 7, default=0x191, access_type="ro"))
    od.add_object(mkvar("Error register", 0x1001, 0, 5, default=0, access_type="ro"))
    decorate(od, len(tag) + nmembers)
    return od


def run_kinds(case, st):
    for tag in ("pos", "neg"):
        for n in (1, 2, 20):
            for doc in ("eds", "dcf"):
                od = build_kinds(tag, n)
                st.evaluations += 1
                st.nontrivial_n += 1
                rc = dict(case, tag=tag, n=n, doc=doc)
                try:
                    od2, text = roundtrip(od, doc)
                except Exception as e:  # noqa: BLE001
                    st.violation(f"C14:{doc}:raises:{type(e).__name__}:kinds", rc, "exported and imported", repr(e)[:150])
                    continue
                if cmp_od(od, od2, doc, st, rc, "kinds"):
                    st.outcome("round trip ok")
                # 'Parent.Child' lookups survive
                try:
                    if od2["Rec %s.a b" % tag].subindex != 1 or od2["Arr"][n].subindex != n:
                        st.violation(f"C14:{doc}:lookup", rc, "same members", "different")
                except Exception as e:  # noqa: BLE001
                    st.violation(f"C14:{doc}:lookup-raises", rc, "lookup works", repr(e)[:100])


def mask(text):
    text = re.sub(r"(?m)^(ModificationDate|ModificationTime|CreationDate|CreationTime)\s*=.*$", r"\1=<masked>", text)
    return text


def run_destinations(case, st):
    for tag, n in (("pos", 2), ("neg", 20)):
        for doc in ("eds", "dcf"):
            texts = {}
            for dest in ("file", "stream", "stdout"):
                od = build_kinds(tag, n)
                st.evaluations += 1
                st.nontrivial_n += 1
                rc = dict(case, tag=tag, n=n, doc=doc, dest=dest)
                try:
                    od2, text = roundtrip(od, doc, dest)
                except Exception as e:  # noqa: BLE001
                    st.violation(f"C14:{doc}:raises:{type(e).__name__}:dest-{dest}", rc, "exported", repr(e)[:150])
                    continue
                texts[dest] = mask(text)
                cmp_od(od, od2, doc, st, rc, "dest-" + dest)
            if len(set(texts.values())) > 1:
                a, b = list(texts.items())[0], [x for x in texts.items() if x[1] != list(texts.values())[0]][0]
                diff = next((la, lb) for la, lb in zip(a[1].splitlines(), b[1].splitlines()) if la != lb)
                st.violation(f"C14:{doc}:destination-changes-document", dict(case, tag=tag, doc=doc), f"{a[0]}: {diff[0]}", f"{b[0]}: {diff[1]}")
            else:
                st.outcome("destinations identical")


def run_history(case, st):
    """Two exports in one process: the second dictionary's document must describe the second dictionary."""
    for doc in ("eds", "dcf"):
        for first, second in (("pos", "neg"), ("neg", "pos")):
            od1, od2 = build_kinds(first, 2), build_kinds(second, 1)
            od2.device_information.vendor_name = "Other vendor"
            st.evaluations += 1
            st.nontrivial_n += 1
            rc = dict(case, doc=doc, order=[first, second])
            try:
                roundtrip(od1, doc)
                back, _ = roundtrip(od2, doc)
            except Exception as e:  # noqa: BLE001
                st.violation(f"C14:{doc}:raises:{type(e).__name__}:history", rc, "exported", repr(e)[:150])
                continue
            if cmp_od(od2, back, doc, st, rc, "second-export"):
                st.outcome("history ok")
            # the SAME dictionary exported, edited by the application (defaults, parameter values, a limit, a name), exported
            # again: the second document describes the dictionary as it is now, and exporting did not change it
            from canopen.objectdictionary import ODVariable
            st.evaluations += 1
            st.nontrivial_n += 1

            def flat(od_):
                for o in od_.values():
                    if isinstance(o, ODVariable):
                        yield o
                    else:
                        for m in o.values():
                            yield m
            before = [(v.index, v.subindex, v.default, v.value, v.min, v.max, v.name) for v in flat(od2)]
            try:
                roundtrip(od2, doc)
                after = [(v.index, v.subindex, v.default, v.value, v.min, v.max, v.name) for v in flat(od2)]
                if after != before:
                    st.violation(f"C14:{doc}:export-changed-the-dictionary", rc, "dictionary untouched by export_od",
                                 [(a, b) for a, b in zip(before, after) if a != b][:2])
                    continue
                n_ = 0
                for v in flat(od2):
                    r = type_range(v.data_type)
                    if r and v.subindex != 0 and v.default is not None:
                        n_ += 1
                        v.default = r[0] + n_ if v.default != r[0] + n_ else r[0] + n_ + 1
                        if doc == "dcf":
                            v.value = r[1] - n_
                back2, _ = roundtrip(od2, doc)
            except Exception as e:  # noqa: BLE001
                st.violation(f"C14:{doc}:raises:{type(e).__name__}:edited-between-exports", rc, "exported", repr(e)[:150])
                continue
            if cmp_od(od2, back2, doc, st, rc, "edited-between-exports"):
                st.outcome("history ok")


def run_imported_text(case, st):
    """Dictionaries obtained by import keep their original value texts (default_raw / value_raw) on export."""
    import canopen
    for doc, node_id in (("eds", 5), ("dcf", 5), ("eds", None), ("dcf", None)):
        # (without a node id in force the relative default of object 2 cannot be resolved on import: everything else,
        # in particular the parameter value of the same entry, must still survive the round trip)
        for style in ({"number": "dec"}, {"number": "hex", "limit_hex": True}, {"number": "HEX", "rel_form": 1}):
            objs = []
            for i, t in enumerate((3, 0x10, 7, 9, 0xA, 8)):
                r = type_range(t)
                var = {"sub": 0, "name": "obj %d" % i, "type": t, "access": "rw", "pdo": i % 2}
                if r:
                    var.update(default=("rel", 0x20) if t == 7 else ("abs", r[0]), low=r[0], high=r[1], value=("abs", r[1]))
                elif t == 9:
                    var.update(default=("abs", "text = 5%"), value=("abs", "v"))
                elif t == 0xA:
                    var.update(default=("abs", b"\x01\x02"), value=("abs", b""))
                else:
                    var.update(default=("abs", -1.5), value=("abs", 2.0))
                objs.append({"kind": "var", "index": 0x2000 + i, "name": var["name"], "vars": [var]})
            model = {"doc_type": doc, "node_id": node_id, "baudrate": 500, "comments": ["a", "b"],
                     "device_info": {"VendorName": "V", "Granularity": 8, "BaudRate_500": 1}, "objects": objs}
            f = io.StringIO(W.write(model, style))
            f.name = "m." + doc
            od = canopen.import_od(f)
            od._verif_relative = True
            st.evaluations += 1
            st.nontrivial_n += 1
            rc = dict(case, doc=doc, style=style, node_id=node_id)
            try:
                od2, text = roundtrip(od, doc)
            except Exception as e:  # noqa: BLE001
                st.violation(f"C14:{doc}:raises:{type(e).__name__}:imported-text", rc, "exported", repr(e)[:150])
                continue
            if cmp_od(od, od2, doc, st, rc, "imported-text"):
                st.outcome("round trip ok")
            if doc == "dcf":
                # the usual flow: load a template, set parameter values in the program, save a DCF, load it again
                f3 = io.StringIO(W.write(dict(model, doc_type="eds"), style))
                f3.name = "template.eds"
                od3 = canopen.import_od(f3, node_id)
                od3._verif_relative = True
                od3.node_id, od3.bitrate = node_id, 500000
                for k_, obj in enumerate(od3.values()):
                    r = type_range(obj.data_type)
                    if r:
                        obj.value = r[1] - k_
                st.evaluations += 1
                try:
                    od4, text = roundtrip(od3, "dcf")
                except Exception as e:  # noqa: BLE001
                    st.violation(f"C14:dcf:raises:{type(e).__name__}:values-set-in-program", rc, "exported", repr(e)[:150])
                    continue
                if cmp_od(od3, od4, "dcf", st, rc, "values-set-in-program"):
                    st.outcome("round trip ok")


def run_case(case, st):
    {"vars": run_vars, "kinds": run_kinds, "destinations": run_destinations, "history": run_history,
     "imported-text": run_imported_text}[case["part"]](case, st)


def finish(st, tier):
    if st.outcomes.get("round trip ok", 0) < 400 and not st.violations:
        raise simenv.HarnessError("fewer dictionaries than the stated product")
