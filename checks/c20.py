"""C20 — physical, described and bit-field views agree with the raw value (SDO and PDO variables).

Enumeration on real SdoVariable objects of a LocalNode (raw observed in data_store) and real
PdoVariable objects in a byte-aligned map (raw observed in PdoMap.data).
"""
from fractions import Fraction

from mc import simenv
from mc.refs import codec

ID = "C20"
LEVEL = "exploration"
EXHAUSTIVE = True
RULE = ("phys: integer type x factor {1,2,10,0.1,0.001,0.5,-1,-0.25,3,1/3,2.5e-7,1e-9,-3e-8,1e6,12345.678} x raw boundary value x offset {0,+-0.25,+-0.49} "
        "steps; desc: tables of 1, 2, 20 entries (one description a prefix of another); bits: every contiguous range "
        "[lo,hi) within 32 bits (528) x spelling {int, ascending list, descending list, tuple, slice lo:hi, slice lo:hi:1, "
        "defined name} x field value {0,1,max,alternating} x base raw {0, all ones, A5A5A5A5}; each on an SDO and a PDO "
        "variable. non-trivial = distinct (view, parameters) cases with a non-unit factor, a multi-entry table or a range "
        "wider than one bit; slices with an open lower / upper end on 8..64-bit variables")
ASSUMPTIONS = [
    "nearest integer: either neighbour accepted at (numerically) exact ties of value/factor",
    "requested physical values are generated so that the nearest raw value lies in the type's range",
    "the physical view is defined over Python floats: raw or physical magnitudes above 2^52 are outside the claim (counted as excluded)",
]
FACTORS = [1, 2, 10, 0.1, 0.001, 0.5, -1, -0.25, 3, 1 / 3, 2.5e-7, 1e-9, -3e-8, 1e6, 12345.678]
SDO_TYPES = codec.INT_TYPES
PDO_TYPES = ["UNSIGNED8", "INTEGER16", "UNSIGNED32", "INTEGER32"]
# widths other than 32 for slices with an open end (the end is the variable's own top bit)
OPEN_TYPES_ALL = ["UNSIGNED8", "UNSIGNED16", "UNSIGNED24", "UNSIGNED32", "UNSIGNED40", "UNSIGNED48", "UNSIGNED56", "UNSIGNED64"]
OPEN_TYPES = {"sdo": ["UNSIGNED8", "UNSIGNED16", "UNSIGNED24", "UNSIGNED40", "UNSIGNED64"], "pdo": ["UNSIGNED8", "UNSIGNED16"]}


def bounds(tier):
    return {"bit_ranges": 528, "spellings": 7, "factors": len(FACTORS)}


def cases(tier, seed):
    out = [{"part": "retry"}]
    for t in SDO_TYPES:
        for fi in range(len(FACTORS)):
            out.append({"part": "phys", "type": t, "factor": fi, "transport": "sdo"})
    for t in PDO_TYPES:
        for fi in range(len(FACTORS)):
            out.append({"part": "phys", "type": t, "factor": fi, "transport": "pdo"})
    for tr in ("sdo", "pdo"):
        out.append({"part": "desc", "transport": tr})
        for lo in range(32):
            out.append({"part": "bits", "lo": lo, "transport": tr})
        for t in (OPEN_TYPES[tr] if tier == "quick" else (OPEN_TYPES_ALL if tr == "sdo" else OPEN_TYPES[tr])):
            out.append({"part": "bits-open", "type": t, "transport": tr})
    k = seed % len(out)
    return out[k:] + out[:k]


class Harness:
    """One variable of a given type, reachable as SdoVariable on a LocalNode and as PdoVariable."""

    def __init__(self, tname, factor=1, descriptions=None, bitdefs=None, transport="sdo"):
        import canopen
        from canopen.objectdictionary import ODArray, ODRecord, ODVariable, ObjectDictionary, datatypes as dt
        od = ObjectDictionary()
        v = ODVariable("Thing", 0x2000)
        v.data_type = getattr(dt, tname)
        v.factor = factor
        for val, d in (descriptions or {}).items():
            v.add_value_description(val, d)
        for n, b in (bitdefs or {}).items():
            v.add_bit_definition(n, b)
        od.add_object(v)
        self.w, self.signed = codec.int_info(tname)
        self.tname = tname
        self.transport = transport
        if transport == "sdo":
            self.node = canopen.LocalNode(5, od)
            self.var = self.node.sdo[0x2000]
        else:
            r = ODRecord("com", 0x1800)
            for s_, (n, t) in enumerate([("n", dt.UNSIGNED8), ("cob", dt.UNSIGNED32), ("tt", dt.UNSIGNED8)]):
                x = ODVariable(n, 0x1800, s_)
                x.data_type = t
                r.add_member(x)
            od.add_object(r)
            a = ODArray("map", 0x1A00)
            for s_ in range(3):
                x = ODVariable("m%d" % s_, 0x1A00, s_)
                x.data_type = dt.UNSIGNED8 if s_ == 0 else dt.UNSIGNED32
                a.add_member(x)
            od.add_object(a)
            pad = ODVariable("Pad", 0x2001)
            pad.data_type = dt.UNSIGNED8
            od.add_object(pad)
            self.node = canopen.RemoteNode(5, od)
            self.map = self.node.tpdo[1]
            self.map.clear()
            self.map.add_variable(0x2001)
            self.var = self.map.add_variable(0x2000)

    def set_raw_bytes(self, raw):
        b = codec.encode_int(self.tname, raw)
        if self.transport == "sdo":
            self.node.data_store.setdefault(0x2000, {})[0] = b
        else:
            self.map.data[1:1 + len(b)] = b

    def raw(self):
        if self.transport == "sdo":
            b = self.node.data_store[0x2000][0]
        else:
            b = bytes(self.map.data[1:1 + self.w // 8])
        return codec.decode_int(self.tname, b)


def nearest(q):
    """Set of acceptable nearest integers of the exact rational q."""
    f = q.numerator // q.denominator
    frac = q - f
    half = Fraction(1, 2)
    tol = Fraction(1, 10 ** 9) * max(1, abs(q))
    if abs(frac - half) <= tol:
        return {f, f + 1}
    return {f} if frac < half else {f + 1}


def run_phys(case, st):
    t, factor = case["type"], FACTORS[case["factor"]]
    lo, hi = codec.int_range(t)
    h = Harness(t, factor=factor, transport=case["transport"])
    raws = [r for r in codec.boundary_values(t) if lo + 1 <= r <= hi - 1]
    if "raw" in case:
        raws = [case["raw"]]
    for raw in raws:
        for delta in ([case["delta"]] if "delta" in case else (0, 0.25, -0.25, 0.49, -0.49)):
            req = raw * factor + delta * factor
            if abs(raw) > 2 ** 52 or abs(req) > 2 ** 52:
                st.exclude("magnitude above 2^52: the float arithmetic of the physical view cannot represent the request")
                continue
            st.evaluations += 1
            if factor != 1:
                st.nontrivial_n += 1
            rc = dict(case, raw=raw, delta=delta)
            q = Fraction(req) / Fraction(factor)
            want = nearest(q)
            if not all(lo <= x <= hi for x in want):
                continue
            h.set_raw_bytes(0)
            try:
                h.var.phys = req
                got_raw = h.raw()
                back = h.var.phys
            except Exception as e:  # noqa: BLE001
                st.violation(f"C20:phys:raises:{type(e).__name__}:{case['transport']}", rc, "value stored", repr(e)[:100])
                continue
            # float division/rounding noise: allow the neighbours when q is within 1e-9 of a tie, else exact
            if got_raw not in want:
                st.violation(f"C20:phys:raw-not-nearest:{case['transport']}", rc, sorted(want), got_raw)
                continue
            err = abs(Fraction(back) - Fraction(req))
            if err > abs(Fraction(factor)) / 2 + abs(Fraction(req)) * Fraction(1, 10 ** 12) + Fraction(1, 10 ** 12):
                st.violation(f"C20:phys:readback-error:{case['transport']}", rc, f"|error| <= {abs(factor) / 2}", float(err))
            st.outcome("phys ok")
    st.sample({"phys": case}, cap=2)


def run_desc(case, st):
    tables = [
        {0: "off"},
        {0: "off", 1: "on"},
        dict([(i * 3, f"state {i}") for i in range(18)] + [(100, "run"), (101, "running")]),
        dict([(100, "running"), (101, "run"), (7, "Run"), (8, "ru")]),
    ]
    for ti, table in enumerate(tables):
        for t in ("UNSIGNED8", "INTEGER16", "UNSIGNED32"):
            if case["transport"] == "pdo" and t not in PDO_TYPES:
                continue
            h = Harness(t, descriptions=table, transport=case["transport"])
            for val, d in table.items():
                st.evaluations += 1
                st.nontrivial.add(("desc", ti, t, val, case["transport"]))
                rc = dict(case, table=ti, type=t, val=val)
                h.set_raw_bytes(1 if val != 1 else 2)
                try:
                    h.var.desc = d
                    if h.raw() != val:
                        st.violation(f"C20:desc:set:{case['transport']}", rc, val, h.raw())
                    h.set_raw_bytes(val)
                    got = h.var.desc
                    if got != d:
                        st.violation(f"C20:desc:get:{case['transport']}", rc, d, got)
                except Exception as e:  # noqa: BLE001
                    st.violation(f"C20:desc:raises:{type(e).__name__}:{case['transport']}", rc, d, repr(e)[:100])
                st.outcome("desc ok")
            # history: the table is edited in place (same size), through the API and directly in the public dictionary
            # attribute, then used again
            vals = list(table)
            if len(vals) >= 2:
                a, b = vals[0], vals[1]
                da, db = table[a], table[b]
                for how in ("api", "dict"):
                    def put(k, v):
                        if how == "api":
                            h.var.od.add_value_description(k, v)
                        else:
                            h.var.od.value_descriptions[k] = v
                    try:
                        h.var.desc = da            # the table has been used (in both directions) before it is edited
                        h.var.desc
                    except Exception:  # noqa: BLE001
                        pass
                    put(a, db)
                    put(b, da)
                    for val, d in ((a, db), (b, da)):
                        st.evaluations += 1
                        st.nontrivial.add(("desc-edited", how, ti, t, val, case["transport"]))
                        rc = dict(case, table=ti, type=t, val=val, edited=how)
                        try:
                            h.set_raw_bytes(vals[-1])
                            h.var.desc = d
                            if h.raw() != val:
                                st.violation(f"C20:desc:set-after-table-edit:{how}:{case['transport']}", rc, val, h.raw())
                            if h.var.desc != d:
                                st.violation(f"C20:desc:get-after-table-edit:{how}:{case['transport']}", rc, d, h.var.desc)
                        except Exception as e:  # noqa: BLE001
                            st.violation(f"C20:desc:raises-after-table-edit:{how}:{type(e).__name__}", rc, d, repr(e)[:100])
                    put(a, da)
                    put(b, db)
    st.sample({"desc": case["transport"], "tables": [len(t) for t in tables]}, cap=2)


def run_bits(case, st):
    lo = case["lo"]
    for hi in range(lo + 1, 33):
        width = hi - lo
        if "hi" in case and hi != case["hi"]:
            continue
        bitdefs = {"FIELD": list(range(lo, hi))}
        h = Harness("UNSIGNED32", bitdefs=bitdefs, transport=case["transport"])
        spellings = {"list-asc": list(range(lo, hi)), "list-desc": list(range(hi - 1, lo - 1, -1)),
                     "tuple": tuple(range(lo, hi)), "slice": slice(lo, hi), "slice-step1": slice(lo, hi, 1),
                     "name": "FIELD"}
        if width == 1:
            spellings["int"] = lo
        if lo == 0:
            spellings["slice-open-lo"] = slice(None, hi)
        if hi == 32:
            # the variable is 32 bits wide: an open end is its top bit
            spellings["slice-open-hi"] = slice(lo, None)
        mask = ((1 << width) - 1) << lo
        vals = sorted({0, 1, (1 << width) - 1, int("01" * 16, 2) & ((1 << width) - 1)})
        for sp, key in spellings.items():
            if "spelling" in case and sp != case["spelling"]:
                continue
            for base in (0, 0xFFFFFFFF, 0xA5A5A5A5):
                for v in vals:
                    st.evaluations += 1
                    if width > 1:
                        st.nontrivial.add(("bits", lo, hi, sp, case["transport"]))
                    rc = dict(case, hi=hi, spelling=sp, base=base, v=v)
                    h.set_raw_bytes(base)
                    try:
                        h.var.bits[key] = v
                        got = h.raw()
                        want = (base & ~mask) | (v << lo)
                        if got != want:
                            st.violation(f"C20:bits:set:{sp}:{case['transport']}", rc, hex(want), hex(got))
                            continue
                        rd = h.var.bits[key]
                        if rd != v:
                            st.violation(f"C20:bits:get:{sp}:{case['transport']}", rc, v, rd)
                    except Exception as e:  # noqa: BLE001
                        st.violation(f"C20:bits:raises:{type(e).__name__}:{sp}:{case['transport']}", rc, "field updated",
                                     repr(e)[:100])
                    st.outcome("bits ok")
    st.sample({"bits": case}, cap=2)


def run_bits_open(case, st):
    h = Harness(case["type"], transport=case["transport"])
    w = h.w
    full = (1 << w) - 1
    for lo in range(w):
        for sp, key, a, b in (("slice-open-hi", slice(lo, None), lo, w), ("slice-open-lo", slice(None, lo + 1), 0, lo + 1),
                              ("slice-open-both", slice(None, None), 0, w)):
            if sp == "slice-open-both" and lo:
                continue
            width = b - a
            mask = ((1 << width) - 1) << a
            for base in (0, full, int("A5" * 8, 16) & full):
                for v in sorted({0, 1, (1 << width) - 1, int("01" * 32, 2) & ((1 << width) - 1)}):
                    st.evaluations += 1
                    st.nontrivial.add(("bits-open", case["type"], sp, lo, case["transport"]))
                    rc = dict(case, lo=lo, spelling=sp, base=base, v=v)
                    h.set_raw_bytes(base)
                    try:
                        h.var.bits[key] = v
                        got, want = h.raw(), (base & ~mask) | (v << a)
                        if got != want:
                            st.violation(f"C20:bits:set:{sp}:{case['transport']}", rc, hex(want), hex(got))
                            continue
                        rd = h.var.bits[key]
                        if rd != v:
                            st.violation(f"C20:bits:get:{sp}:{case['transport']}", rc, v, rd)
                    except Exception as e:  # noqa: BLE001
                        st.violation(f"C20:bits:raises:{type(e).__name__}:{sp}:{case['transport']}", rc, "field updated",
                                     repr(e)[:100])
                    st.outcome("bits ok")


def run_retry(case, st):
    """A write through a view is refused once (the device says no); the identical assignment repeated on the same, held
    view object must reach the device; a refused write must not change what the views report."""
    import canopen
    for view in ("raw", "phys", "desc", "bits-name", "bits-slice", "bits-list", "bits-int"):
        for base in (0x0100, 0xFFFF, 0x0000):
            for hold in (True, False):
                h = Harness("UNSIGNED16", factor=2, descriptions={0x0101: "on", 0x0100: "off", 0xFFFE: "odd"},
                            bitdefs={"LOW": [0], "NIB": [4, 5, 6, 7]}, transport="sdo")
                armed = {"on": True}

                def veto(index, subindex, od, data, _a=armed):
                    if _a["on"]:
                        _a["on"] = False
                        raise canopen.SdoAbortedError(0x08000022)
                h.node.add_write_callback(veto)
                h.set_raw_bytes(base)
                var = h.var
                bits = var.bits if hold else None
                key = {"bits-name": "LOW", "bits-slice": slice(4, 8), "bits-list": [4, 5, 6, 7], "bits-int": 0}.get(view)

                def assign():
                    if view == "raw":
                        var.raw = 0x0101
                    elif view == "phys":
                        var.phys = 0x0202
                    elif view == "desc":
                        var.desc = "on"
                    else:
                        (bits if hold else var.bits)[key] = 1 if view in ("bits-name", "bits-int") else 0xA
                want = {"raw": 0x0101, "phys": 0x0101, "desc": 0x0101, "bits-name": base | 1, "bits-int": base | 1,
                        "bits-slice": (base & ~0xF0) | 0xA0, "bits-list": (base & ~0xF0) | 0xA0}[view]
                st.evaluations += 1
                st.nontrivial.add(("retry", view, base, hold))
                rc = dict(case, view=view, base=base, hold=hold)
                try:
                    assign()
                    st.violation(f"C20:retry:{view}:refusal-not-reported", rc, "SdoAbortedError", "returned normally")
                    continue
                except canopen.SdoAbortedError:
                    pass
                except Exception as e:  # noqa: BLE001
                    st.violation(f"C20:retry:{view}:raises:{type(e).__name__}", rc, "SdoAbortedError", repr(e)[:100])
                    continue
                if h.raw() != base:
                    st.violation(f"C20:retry:{view}:refused-write-stored", rc, hex(base), hex(h.raw()))
                    continue
                try:
                    assign()
                except Exception as e:  # noqa: BLE001
                    st.violation(f"C20:retry:{view}:second-attempt-raises:{type(e).__name__}", rc, "stored", repr(e)[:100])
                    continue
                if h.raw() != want:
                    st.violation(f"C20:retry:{view}:{'held-view' if hold else 'fresh-view'}:not-stored", rc, hex(want), hex(h.raw()))
                    continue
                st.outcome("retry ok")


def run_case(case, st):
    {"phys": run_phys, "desc": run_desc, "bits": run_bits, "bits-open": run_bits_open, "retry": run_retry}[case["part"]](case, st)


def finish(st, tier):
    if st.outcomes.get("bits ok", 0) < 528 * 2 * 6 and not st.violations:
        raise simenv.HarnessError("bit ranges not fully enumerated")
