"""C17 — periodic transmissions run exactly when and with what the API state says.

Explorer B to closure, one closure per producer (SYNC, PDO map, heartbeat of a LocalNode, node
guarding of a RemoteNode) on the SimBus task registry in both flavours (tasks that can / cannot
modify their data in place), plus a combined harness of bounded depth for Network.disconnect().
The invariant is evaluated in every state; a violating state is terminal (a leaked task would
make the space infinite).
"""
import struct

from mc import kernel, simenv

ID = "C17"
LEVEL = "model_checking"
EXHAUSTIVE = True
RULE = ("closure of each producer's alphabet: sync {start(0.1), start(0.2), start(0.1004), start(), stop()}; pdo map {start(0.1), start(0.1004), "
        "start(0.5), start(), stop(), set variable 0/7, update()}; heartbeat {nmt.state = 5 names, NMT command frames "
        "1/2/128/129, write 0x1017 in {0,100,250} via SDO frame and via local.sdo}; node guarding {start(0.1), start(0.3), "
        "stop()}; x task flavour {modify_data, no modify_data}; combined depth-bounded harness with disconnect(). Invariant "
        "in every state: per producer at most one live task, with the producer's current id/payload/period/remote flag; none "
        "after stop or heartbeat time 0. non-trivial = states reached by >= 2 operations; re-connection: start / disconnect() / connect / (stop) / start / stop for SYNC, RPDO, TPDO, heartbeat, node guarding x {the interface cancels its tasks at shutdown, leaves them running} x {the application shuts its bus down first}, with a node object without NMT on the network; nothing transmits after disconnect()")
ASSUMPTIONS = [
    "a cyclic task serialises its frame when created / modified, like a real backend (no aliasing of the caller's buffer)",
    "combined harness: the bus is one whose shutdown() does not itself cancel cyclic tasks (custom interface), stopping them is the library's duty; the re-connection part covers both kinds of interface",
    "heartbeat: running is demanded after a non-zero write of 0x1017 and none after a zero write; NMT state changes must only update the payload",
]
OD = None


def od():
    global OD
    if OD is None:
        from canopen.objectdictionary import ODArray, ODRecord, ODVariable, ObjectDictionary, datatypes as dt
        OD = ObjectDictionary()
        v = ODVariable("hb", 0x1017)
        v.data_type = dt.UNSIGNED16
        v.default = 0
        OD.add_object(v)
        v = ODVariable("valu", 0x2000)
        v.data_type = dt.UNSIGNED8
        v.default = 0
        OD.add_object(v)
        for com, mp in ((0x1800, 0x1A00), (0x1400, 0x1600)):
            r = ODRecord("com%X" % com, com)
            for s_, (n, t) in enumerate([("n", dt.UNSIGNED8), ("cob", dt.UNSIGNED32), ("tt", dt.UNSIGNED8)]):
                x = ODVariable(n, com, s_)
                x.data_type = t
                r.add_member(x)
            OD.add_object(r)
            a = ODArray("map%X" % mp, mp)
            for s_ in range(3):
                x = ODVariable("m%d" % s_, mp, s_)
                x.data_type = dt.UNSIGNED8 if s_ == 0 else dt.UNSIGNED32
                a.add_member(x)
            OD.add_object(a)
    return OD


def bounds(tier):
    return {"closures": "sync, pdo, heartbeat, guarding x 2 task flavours", "combined_depth": 3 if tier == "quick" else "closure"}


class Base:
    MOD = True
    EVENTS = []

    def __init__(self):
        import canopen
        simenv.new_world()
        self.bus = simenv.SimBus("inline", modifiable_tasks=self.MOD, shutdown_stops_tasks=False)
        self.net = canopen.Network()
        self.bus.attach(self.net, "net")
        self.undefined = False

    def live(self, can_id=None):
        return sorted(t.view()[:4] for t in self.bus.live_tasks() if can_id is None or t.view()[0] == can_id)

    def enabled(self):
        return self.EVENTS

    def check(self, can_id, expected, who):
        got = self.live(can_id)
        if got != expected:
            kind = "leak" if len(got) > len(expected) else ("missing" if len(got) < len(expected) else "stale-content")
            return [(f"C17:{who}:{kind}", [(hex(e[0]), e[1].hex(), e[2], e[3]) for e in expected],
                     [(hex(e[0]), e[1].hex(), e[2], e[3]) for e in got])]
        return []


class Sync(Base):
    EVENTS = [("start", 0.1), ("start", 0.2), ("start", 0.1004), ("start", None), ("start", 0), ("stop",)]

    def __init__(self):
        super().__init__()
        self.running, self.period = False, None

    def do(self, e):
        if e[0] == "start":
            p = e[1] if e[1] is not None else self.period
            try:
                self.net.sync.start(e[1])
            except ValueError:
                if p:
                    return [("C17:sync:start-refused", "started", "ValueError")]
                # a refused start either leaves the producer as it was (same task, same period attribute) or stopped
                if not self.live():
                    self.running = False
                    if self.net.sync.period in (self.period, 0, None):
                        self.period = self.net.sync.period or None      # a stopped producer may keep or forget its period
                elif self.net.sync.period != self.period:
                    return [("C17:sync:refused-start-changed-the-period-of-a-running-producer",
                             f"period attribute {self.period} (the running task's) or no task", f"period attribute {self.net.sync.period}, task still running")]
                return []
            if not p:
                return [("C17:sync:start-without-period", "ValueError", "started")]
            self.running, self.period = True, p
        else:
            self.net.sync.stop()
            self.running = False
        return []

    def invariant(self):
        return self.check(0x80, [(0x80, b"", self.period, False)] if self.running else [], "sync")

    def canon(self):
        return (tuple(self.live()), self.running, self.period, kernel.scalar_state(self.net.sync), self.net.sync._task is None)


class Pdo(Base):
    EVENTS = [("start", 0.1), ("start", 0.5), ("start", 0.1004), ("start", None), ("start", 0), ("stop",), ("set", 0), ("set", 7), ("update",),
              ("remap", 1), ("remap", 2)]

    def __init__(self):
        import canopen
        super().__init__()
        self.node = self.net.add_node(canopen.RemoteNode(5, od()))
        self.map = self.node.rpdo[1]
        self.map.cob_id = 0x205
        self.map.add_variable(0x2000)
        self.running, self.period, self.value, self.size = False, None, 0, 1

    def do(self, e):
        if e[0] == "remap":
            # the mapping (and with it the size of the frame) changes while the transmission may be running
            self.map.clear()
            for _ in range(e[1]):
                self.map.add_variable(0x2000)
            self.map.update()
            self.value, self.size = 0, e[1]
            return []
        if e[0] == "start":
            p = e[1] if e[1] is not None else self.period
            try:
                self.map.start(e[1])
            except ValueError:
                self.running = False          # start() stops a running transmission before it validates the period
                if p:
                    return [("C17:pdo:start-refused", "started", "ValueError")]
                if self.map.period in (self.period, 0, None):
                    self.period = self.map.period or None       # a refused period may be remembered (as "none") or not
                return []
            if not p:
                return [("C17:pdo:start-without-period", "ValueError", "started")]
            self.running, self.period = True, p
        elif e[0] == "stop":
            self.map.stop()
            self.running = False
        elif e[0] == "set":
            for k in range(self.size):
                self.map[k].raw = e[1]
            self.value = e[1]
        else:
            self.map.update()
        return []

    def invariant(self):
        return self.check(0x205, [(0x205, bytes([self.value] * self.size), self.period, False)] if self.running else [], "pdo")

    def canon(self):
        return (tuple(self.live()), self.running, self.period, self.value, kernel.scalar_state(self.map, exclude=("timestamp",)),
                self.map._task is None)


class Heartbeat(Base):
    EVENTS = [("state", n) for n in ("OPERATIONAL", "PRE-OPERATIONAL", "STOPPED", "RESET", "RESET COMMUNICATION")] + \
             [("cmd", cs) for cs in (1, 2, 128, 129)] + \
             [("hb-frame", v) for v in (0, 100, 250)] + [("hb-sdo", v) for v in (0, 100, 250)] + \
             [("hb-cb", v, how) for v in (1, 2, 3) for how in ("local", "frame")]
    TABLE = {1: 5, 2: 4, 128: 127, 129: 0, 130: 0}
    NAMES = {"OPERATIONAL": 1, "PRE-OPERATIONAL": 128, "STOPPED": 2, "RESET": 129, "RESET COMMUNICATION": 130}

    def __init__(self):
        import canopen
        super().__init__()
        self.node = self.net.add_node(canopen.LocalNode(6, od()))
        self.state, self.hb_ms, self.running = 0, 0, False

        # the device application reacts to a write of a vendor object by changing its heartbeat time (re-entrancy: a
        # write callback that writes another object of the same node)
        def on_write(index, subindex, od, data, _n=self.node):
            if index == 0x2000:
                _n.sdo[0x1017].raw = {1: 100, 2: 0, 3: 250}.get(data[0], 0)
        self.node.add_write_callback(on_write)

    def do(self, e):
        if e[0] == "state":
            old = self.state
            self.node.nmt.state = e[1]
            self.state = self.TABLE[self.NAMES[e[1]]]
            if old == 0 and self.state == 127:
                self.running = self.hb_ms > 0       # heartbeat service starts on INITIALISING -> PRE-OPERATIONAL
        elif e[0] == "cmd":
            self.net.notify(0, bytearray([e[1], 6]), 0.0)
            self.state = self.TABLE[e[1]]
        elif e[0] == "hb-cb":
            ms = {1: 100, 2: 0, 3: 250}[e[1]]
            if e[2] == "local":
                self.node.sdo[0x2000].raw = e[1]
            else:
                self.net.notify(0x606, bytearray(bytes([0x2F, 0x00, 0x20, 0, e[1], 0, 0, 0])), 0.0)
            self.hb_ms = ms
            self.running = ms > 0
        elif e[0] == "hb-frame":
            self.net.notify(0x606, bytearray(bytes([0x2B, 0x17, 0x10, 0]) + struct.pack("<H", e[1]) + bytes(2)), 0.0)
            self.hb_ms = e[1]
            self.running = e[1] > 0
        else:
            self.node.sdo[0x1017].raw = e[1]
            self.hb_ms = e[1]
            self.running = e[1] > 0
        return []

    def invariant(self):
        return self.check(0x706, [(0x706, bytes([self.state]), self.hb_ms / 1000.0, False)] if self.running else [], "heartbeat")

    def canon(self):
        return (tuple(self.live()), self.state, self.hb_ms, self.running, kernel.scalar_state(self.node.nmt),
                self.node.nmt._send_task is None, tuple(sorted(self.node.data_store.get(0x1017, {}).items())))


class Guarding(Base):
    # (canon below also records hidden scalars of the NMT master object)
    EVENTS = [("start", 0.1), ("start", 0.3), ("start", 0.1004), ("stop",)]

    def __init__(self):
        import canopen
        super().__init__()
        self.node = self.net.add_node(canopen.RemoteNode(5, od()))
        self.running, self.period = False, None

    def do(self, e):
        if e[0] == "start":
            self.node.nmt.start_node_guarding(e[1])
            self.running, self.period = True, e[1]
        else:
            self.node.nmt.stop_node_guarding()
            self.running = False
        return []

    def invariant(self):
        return self.check(0x705, [(0x705, b"", self.period, True)] if self.running else [], "guarding")

    def canon(self):
        return (tuple(self.live()), self.running, self.period, kernel.scalar_state(self.node.nmt, exclude=("timestamp",)),
                self.node.nmt._node_guarding_producer is None)


class Combined(Base):
    """Two nodes with PDO tasks + sync + heartbeat, then disconnect()."""
    EVENTS = [("r-rpdo-start",), ("r-tpdo-start",), ("l-tpdo-start",), ("l-rpdo-start",), ("sync-start",), ("hb", 100),
              ("r-rpdo-stop",), ("disconnect",)]

    def __init__(self):
        import canopen
        super().__init__()
        self.r = self.net.add_node(canopen.RemoteNode(5, od()))
        self.l = self.net.add_node(canopen.LocalNode(6, od()))
        self.maps = {"r-rpdo": (self.r.rpdo[1], 0x205), "r-tpdo": (self.r.tpdo[1], 0x185),
                     "l-tpdo": (self.l.tpdo[1], 0x186), "l-rpdo": (self.l.rpdo[1], 0x206)}
        for m, cob in self.maps.values():
            m.cob_id = cob
            m.add_variable(0x2000)
        self.running = set()
        self.disconnected = False

    def enabled(self):
        return [] if self.disconnected else self.EVENTS

    def do(self, e):
        k = e[0]
        if k.endswith("-start") and k != "sync-start":
            m, cob = self.maps[k[:-6]]
            m.start(0.1)
            self.running.add(cob)
        elif k == "r-rpdo-stop":
            self.maps["r-rpdo"][0].stop()
            self.running.discard(0x205)
        elif k == "sync-start":
            self.net.sync.stop()
            self.net.sync.start(0.1)
        elif k == "hb":
            self.l.sdo[0x1017].raw = e[1]
        elif k == "disconnect":
            self.net.disconnect()
            self.running.clear()
            self.disconnected = True
        return []

    def invariant(self):
        v = []
        for name, (m, cob) in self.maps.items():
            v += self.check(cob, [(cob, b"\x00", 0.1, False)] if cob in self.running else [],
                            "disconnect" if self.disconnected else "combined")
        if self.disconnected and self.live():
            v.append(("C17:disconnect:leak", "no cyclic transmission after disconnect()", [hex(t[0]) for t in self.live()]))
        return v

    def canon(self):
        return (tuple(self.live()), tuple(sorted(self.running)), self.disconnected)


HARNESSES = {"sync": Sync, "pdo": Pdo, "heartbeat": Heartbeat, "guarding": Guarding, "combined": Combined}


def make_cls(name, mod):
    base = HARNESSES[name]
    return type(f"{name}_{'mod' if mod else 'nomod'}", (base,), {"MOD": mod})


def apply(sim, e):
    try:
        v = list(sim.do(tuple(e)))
    except Exception as ex:  # noqa: BLE001
        # e.g. the interface refuses to stop a cyclic task twice (python-can's socketcan backend does)
        return [(f"C17:{type(sim).__name__.lower()}:{e[0]}:raises:{type(ex).__name__}", "the call is accepted", repr(ex)[:120])]
    v += sim.invariant()
    return v


def cases(tier, seed):
    out = []
    for name in ("sync", "pdo", "heartbeat", "guarding"):
        for mod in (True, False):
            out.append({"producer": name, "mod": mod, "depth": None})
    for mod in (True, False):
        out.append({"producer": "combined", "mod": mod, "depth": 3 if tier == "quick" else None})
    for mod in (True, False):
        for ss in (True, False):
            out.append({"part": "reconnect", "mod": mod, "shutdown_stops": ss})
    return out


RECONNECT_KINDS = ("sync", "r-rpdo", "l-tpdo", "heartbeat", "guarding")


def run_reconnect(case, st):
    """start, disconnect(), connect again, start again, stop: on an interface whose shutdown() cancels its cyclic tasks
    (python-can's does) and on one that leaves that to the library.  The second start is accepted and exactly one
    task transmits for the producer afterwards; after the stop none does."""
    import canopen
    from canopen.node.base import BaseNode

    class ListenOnlyNode(BaseNode):
        """A node object of the application's own making (no pdo, no nmt attribute)."""

        def associate_network(self, network):
            self.network = network

        def remove_network(self):
            self.network = None
    for kind in RECONNECT_KINDS + ("all",):
        for stop_first, app_shutdown in ((False, False), (True, False)) + (((False, True),) if case["shutdown_stops"] else ()):
            simenv.new_world()
            bus = simenv.SimBus("inline", modifiable_tasks=case["mod"], shutdown_stops_tasks=case["shutdown_stops"])
            net = canopen.Network()
            bus.attach(net, "net")
            net.add_node(ListenOnlyNode(4, od()))
            r = net.add_node(canopen.RemoteNode(5, od()))
            loc = net.add_node(canopen.LocalNode(6, od()))
            r.rpdo[1].cob_id, loc.tpdo[1].cob_id, r.tpdo[1].cob_id = 0x205, 0x186, 0x185
            r.rpdo[1].add_variable(0x2000)
            r.tpdo[1].add_variable(0x2000)
            loc.tpdo[1].add_variable(0x2000)
            can_id = {"sync": 0x80, "r-rpdo": 0x205, "l-tpdo": 0x186, "heartbeat": 0x706, "guarding": 0x705, "all": 0x80}[kind]

            def start():
                if kind == "all":
                    # every producer at once: one refused stop must not keep the others from being stopped / forgotten
                    net.sync.start(0.1)
                    r.rpdo[1].start(0.1)
                    r.tpdo[1].start(0.1)          # a second map of the same node
                    loc.tpdo[1].start(0.1)
                    loc.nmt.start_heartbeat(100)
                    r.nmt.start_node_guarding(0.1)
                elif kind == "sync":
                    net.sync.start(0.1)
                elif kind == "r-rpdo":
                    r.rpdo[1].start(0.1)
                elif kind == "l-tpdo":
                    loc.tpdo[1].start(0.1)
                elif kind == "heartbeat":
                    loc.nmt.start_heartbeat(100)
                else:
                    r.nmt.start_node_guarding(0.1)

            def stop():
                if kind == "all":
                    net.sync.stop()
                    r.rpdo[1].stop()
                    r.tpdo[1].stop()
                    loc.tpdo[1].stop()
                    loc.nmt.stop_heartbeat()
                    r.nmt.stop_node_guarding()
                elif kind == "sync":
                    net.sync.stop()
                elif kind == "r-rpdo":
                    r.rpdo[1].stop()
                elif kind == "l-tpdo":
                    loc.tpdo[1].stop()
                elif kind == "heartbeat":
                    loc.nmt.stop_heartbeat()
                else:
                    r.nmt.stop_node_guarding()
            st.evaluations += 1
            st.nontrivial_n += 1
            rc = dict(case, kind=kind, stop_first=stop_first, app_shutdown=app_shutdown)
            step = "start"
            try:
                start()
                step = "disconnect"
                if app_shutdown:
                    # the application owns the bus and shuts it down itself first (python-can documents shutdown()
                    # as idempotent): the library's own attempt to stop the cancelled tasks may be refused, but the
                    # network is disconnected afterwards and can be used again
                    net.bus.shutdown()
                    try:
                        net.disconnect()
                    except bus._can.CanOperationError:
                        pass
                else:
                    net.disconnect()
                if net.bus is not None:
                    st.violation(f"C17:reconnect:{kind}:disconnect-incomplete", rc, "network.bus is None after disconnect()",
                                 "still set")
                    continue
                bus.attach(net, "net")
                if stop_first:
                    step = "stop after re-connecting"
                    stop()
                step = "second start"
                start()
                live = [t.view()[:4] for t in bus.live_tasks() if kind == "all" or t.view()[0] == can_id]
                if len(live) != (6 if kind == "all" else 1) or any(abs(t[2] - 0.1) > 1e-9 for t in live):
                    st.violation(f"C17:reconnect:{kind}:tasks-after-restart", rc, "one task with period 0.1 per producer started",
                                 [(hex(t[0]), t[2]) for t in live])
                    continue
                step = "stop"
                stop()
                live = [t.view()[:4] for t in bus.live_tasks() if kind == "all" or t.view()[0] == can_id]
                if live:
                    st.violation(f"C17:reconnect:{kind}:leak-after-stop", rc, "no task", [(hex(t[0]), t[2]) for t in live])
                    continue
            except Exception as e:  # noqa: BLE001
                st.violation(f"C17:reconnect:{kind}:raises:{type(e).__name__}", rc, f"{step} is accepted", repr(e)[:150])
                continue
            st.outcome("reconnect ok")


def run_case(case, st):
    if case.get("part") == "reconnect":
        return run_reconnect(case, st)
    cls = make_cls(case["producer"], case["mod"])
    if "hist" in case:
        sim = cls()
        v = []
        for e in case["hist"]:
            v = apply(sim, e)
        for sig, exp, obs in v:
            st.violation(sig + (":mod" if case["mod"] else ":nomod"), case, exp, obs)
        return
    res = kernel.bfs(cls, apply, lambda s: s.enabled(), lambda s: s.canon(), max_depth=case["depth"],
                     terminal=lambda s, v: bool(v), max_states=20000)
    st.states += res["states"]
    st.transitions += res["transitions"]
    st.traces += res["transitions"]
    st.evaluations += res["transitions"]
    st.nontrivial_n += max(res["states"] - 1 - len(cls.EVENTS), 0)
    seen = set()
    for h, (sig, exp, obs) in res["verdicts"]:
        sig = sig + (":mod" if case["mod"] else ":nomod")
        if sig in seen:
            continue
        seen.add(sig)
        st.violation(sig, dict(case, hist=[list(e) for e in h]), exp, obs)
    if case["depth"] is None and not res["closed"] and not res["verdicts"]:
        st.caps.append(f"closure not reached for {case}")
    st.outcome(f"{case['producer']} {'closed' if res['closed'] else 'depth %d' % res['depth']}")
    st.sample({"case": case, "states": res["states"], "transitions": res["transitions"], "closed": res["closed"]}, cap=10)


def finish(st, tier):
    if st.states < 40 and not st.violations:
        raise simenv.HarnessError("closures smaller than expected")
