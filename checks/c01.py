"""C01 — SDO client transfers exactly the caller's bytes in conformant CiA 301 frames.

Driver: the real SdoClient of a RemoteNode on a Network whose SimBus delivers inline to
mc.refs.sdo_server.StrictSdoServer.  The server's answer styles are the environment's
choices; the caller's API, buffering and chunking are the configuration.  Every case is a
complete execution of the real client against the strict acceptor.
"""
import itertools

from mc import simenv
from mc.refs.sdo_server import StrictSdoServer

ID = "C01"
LEVEL = "model_checking"
EXHAUSTIVE = True
RULE = ("product of payload length x API (download/force_segment/open wb with size, without size, forced/text mode) x "
        "buffering {0,7,8,1024 | 1,1024 text} x every split of the payload into write() calls (all 2^(n-1) compositions "
        "for n<=9, all 1- and 2-cut splits above) x predecessor transfer on the same client (none, expedited, "
        "odd-segment-count segmented, unknown-size stream, and FAILED ones: upload / download whose answer arrives after the "
        "client gave up, upload refused by the server); uploads: length x server style {expedited with/without "
        "size, segmented with/without size} x segment plan {full, short non-final segments} x read API/buffering/read "
        "sizes (uniform, and a small read followed by read-everything on raw / 2 / 3 / 7-byte buffered streams) "
        "x dictionary entry {absent, every fixed-size type, string}; plus a length sweep (every length up to 1100 quick / 2100 "
        "thorough, + 7000, 10000 (20000, 70000)) with one download and one upload per length, API / framing / payload family "
        "{position pattern, 00.., FF.., 80.., NUL tail, bytes that look like abort / block frames} rotating. One state = one (case, protocol "
        "step) of the client/server product; non-trivial = transfers with at least one segment frame or a predecessor; declared sizes 1..8 through buffers of 2 and 3 bytes; fewer bytes written than announced (size 2..4) and more than an expedited transfer carries")
ASSUMPTIONS = [
    "the reference server is written from CiA 301 and accepts every legal client framing (short non-final segments, either size indication)",
    "raw mode (buffering=0): the caller loop re-offers the unsent tail",
    "text mode payloads are printable ASCII plus LF, no CR (newline translation is Python's, not canopen's)",
    "expedited upload without size indication and fewer than 4 data bytes is only judged where the dictionary declares a fixed-size number",
    "lengths > 64 are covered for single-write and 1-cut splits at the 7/1024 multiples only (thorough tier)",
]
ADDRS = [(0x1000, 0), (0x2000, 0), (0x2001, 5), (0xFFFF, 0xFF)] + [(1 << b, 0) for b in range(16)] + \
        [(0x2002, 1 << b) for b in range(8)]
OD_WIDTHS = {"u8": 1, "u16": 2, "u32": 4, "u64": 8, "bool": 1, "i8": 1, "i16": 2, "i24": 3, "u24": 3, "i32": 4, "i40": 5, "u48": 6,
             "i56": 7, "i64": 8, "r32": 4, "r64": 8}
OD_TYPES = {"u8": "UNSIGNED8", "u16": "UNSIGNED16", "u32": "UNSIGNED32", "u64": "UNSIGNED64", "bool": "BOOLEAN", "i8": "INTEGER8",
            "i16": "INTEGER16", "i24": "INTEGER24", "u24": "UNSIGNED24", "i32": "INTEGER32", "i40": "INTEGER40", "u48": "UNSIGNED48",
            "i56": "INTEGER56", "i64": "INTEGER64", "r32": "REAL32", "r64": "REAL64", "str": "VISIBLE_STRING", "dom": "DOMAIN"}
OD_INDEX = {"u8": 0x3001, "u16": 0x3002, "u32": 0x3004, "u64": 0x3008, "str": 0x3009, "dom": 0x300A}
for _i, _k in enumerate(k for k in OD_TYPES if k not in OD_INDEX):
    OD_INDEX[_k] = 0x3010 + _i


def bounds(tier):
    return {"download_lengths": "0..24 (full product); sweep 25..1100 + {7000,10000}" if tier == "quick" else "0..64 + {127,128,889,890,1024,1025,1031,10000} (full product); sweep 65..2100 + {7000,10000,20000,70000}",
            "upload_lengths": "0..24 (full product); sweep as downloads" if tier == "quick" else "0..64 + {127,128,889,890,1024,1025,1031,10000}; sweep as downloads",
            "splits": "all compositions n<=9 (quick) / n<=12 (thorough); 1- and 2-cuts above"}


def _od():
    from canopen.objectdictionary import ODVariable, ObjectDictionary, datatypes as dt
    od = ObjectDictionary()
    for name, tname in OD_TYPES.items():
        v = ODVariable("obj_" + name, OD_INDEX[name])
        v.data_type = getattr(dt, tname)
        od.add_object(v)
    return od


PREDS = ("none", "exp", "seg3", "stream", "late-ul", "late-dl", "aborted-ul")


def cases(tier, seed):
    out = []
    big = [127, 128, 889, 890, 1024, 1025, 1031, 10000]
    N = 24 if tier == "quick" else 64
    k = 0
    for n in list(range(0, N + 1)) + (big if tier == "thorough" else []):
        for api in ("download", "force", "open_size", "open_nosize", "open_size_force", "text_size", "text_nosize"):
            bufs = (1, 1024) if api.startswith("text") else ((7,) if api in ("download", "force") else (0, 7, 8, 1024))
            if api == "open_size" and 1 <= n <= 8:
                bufs += (2, 3)       # buffers smaller than an expedited payload
            for buffering in bufs:
                preds = PREDS if (n <= 16 and api in ("download", "open_nosize", "open_size")
                                                               and buffering in (7, 0)) else \
                    (PREDS[k % len(PREDS)],)
                for pred in preds:
                    k += 1
                    out.append({"dir": "dl", "n": n, "api": api, "buf": buffering, "pred": pred,
                                "addr": list(ADDRS[(k + seed) % len(ADDRS)]), "seed": seed,
                                "allsplits": 9 if tier == "quick" else 12})
    for n in list(range(0, N + 1)) + (big if tier == "thorough" else [31, 33, 47, 48]):
        for style in ("exp_s", "exp_nos", "seg_s", "seg_nos"):
            if style.startswith("exp") and not 1 <= n <= 4:
                continue
            plans = (None,) if style.startswith("exp") else (None, [3], [1, 6, 2, 7])
            for plan in plans:
                for od in ["absent", "str"] + list(OD_WIDTHS):
                    if od in OD_WIDTHS and n < OD_WIDTHS[od]:
                        continue
                    for mode in ("upload", "raw", "b7:all", "b7:1", "b7:3", "b7:7", "b7:8", "b1024:all", "b1024:3", "text",
                                 "b3:1+all", "b3:2+all", "b2:1+all", "b7:3+all", "b0:3+all", "b0:6+all"):
                        if od != "absent" and mode not in ("upload", "b7:3"):
                            continue
                        k += 1
                        out.append({"dir": "ul", "n": n, "style": style, "plan": plan, "od": od, "mode": mode,
                                    "pred": PREDS[k % len(PREDS)] if n > 8 or mode != "upload" else
                                    ("none", "seg3")[k % 2],
                                    "addr": list(ADDRS[(k + seed) % len(ADDRS)]) if od == "absent" else [OD_INDEX[od], 0],
                                    "seed": seed})
    # length sweep beyond the exhaustive range: one download and one upload per length, API / framing / payload family
    # rotating with the length; a few large transfers handed over in one piece
    top = 1100 if tier == "quick" else 2100
    for n in list(range(N + 1, top + 1)) + [7000, 10000] + ([20000, 70000] if tier == "thorough" else []):
        k += 1
        out.append({"dir": "dl", "n": n, "api": ("download", "open_size", "open_nosize", "force")[n % 4], "buf": (1024, 7, 0)[n % 3] if n % 4 in (1, 2) else 7,
                    "pred": "none", "addr": list(ADDRS[(k + seed) % len(ADDRS)]), "seed": seed, "split": [n],
                    "fill": simenv.FILLS[(n // 4) % len(simenv.FILLS)]})
        out.append({"dir": "ul", "n": n, "style": ("seg_s", "seg_nos")[n % 2], "plan": (None, [3], [1, 6, 2, 7])[n % 3] if n < 3000 else None,
                    "od": "absent", "mode": ("upload", "b1024:all", "raw", "b7:3+all")[(n // 2) % 4], "pred": "none",
                    "addr": list(ADDRS[(k + seed) % len(ADDRS)]), "seed": seed, "fill": simenv.FILLS[(n // 3) % len(simenv.FILLS)]})
    # fewer bytes written than the size announced to open() (1..4, i.e. an expedited transfer): the with-block either
    # fails or the server has exactly the bytes that were written - they do not vanish
    for size in (2, 3, 4):
        for w in range(1, size):
            for buffering in (0, 2, 7, 1024):
                out.append({"dir": "short", "size": size, "written": w, "buf": buffering, "seed": seed,
                            "addr": list(ADDRS[(size + w + seed) % len(ADDRS)])})
    for size in (2, 3, 4):
        for first in range(1, size):            # (a first piece of the full size is a complete download of its own)
            if size < 4:
                # more than the announced size, though an expedited frame could carry it
                out.append({"dir": "excess", "size": size, "first": first, "total": 4, "seed": seed,
                            "addr": list(ADDRS[(size + first + seed + 1) % len(ADDRS)])})
            out.append({"dir": "excess", "size": size, "first": first, "seed": seed, "addr": list(ADDRS[(size + first + seed) % len(ADDRS)])})
    # empty write() calls between the chunks
    for n in range(0, 17):
        for api in ("open_size", "open_nosize", "open_size_force"):
            for buffering in (0, 7):
                k += 1
                out.append({"dir": "dl", "n": n, "api": api, "buf": buffering, "pred": "none", "empties": True,
                            "addr": list(ADDRS[(k + seed) % len(ADDRS)]), "seed": seed, "allsplits": 6})
    # the typed accessor's file interface and .data property (SdoVariable.open / get_data / set_data)
    for n in range(0, N + 1):
        for api in ("var_open_size", "var_open_nosize", "var_open_text", "var_data", "var_data_domain"):
            for buffering in ((7, 1024) if api.startswith("var_open") else (7,)):
                k += 1
                out.append({"dir": "acc", "n": n, "api": api, "buf": buffering, "by": ("index", "name")[k % 2], "seed": seed})
    if tier == "quick":
        # full predecessor product for the upload() API on small lengths
        for n in range(0, 17):
            for style in ("exp_s", "seg_s", "seg_nos"):
                if style.startswith("exp") and not 1 <= n <= 4:
                    continue
                for pred in PREDS:
                    out.append({"dir": "ul", "n": n, "style": style, "plan": None, "od": "absent", "mode": "upload",
                                "pred": pred, "addr": [0x2000, 0], "seed": seed})
    return out


def compositions(n):
    if n == 0:
        yield []
        return
    for bits in range(1 << (n - 1)):
        parts, cur = [], 1
        for i in range(n - 1):
            if bits >> i & 1:
                parts.append(cur)
                cur = 1
            else:
                cur += 1
        parts.append(cur)
        yield parts


ALL_COMPOSITIONS_UP_TO = 9


def splits_for(n):
    if n <= ALL_COMPOSITIONS_UP_TO:
        return list(compositions(n))
    out = [[n]]
    if n <= 64:
        for a in range(1, n):
            out.append([a, n - a])
        for a, b in itertools.combinations(range(1, n), 2):
            out.append([a, b - a, n - b])
    else:
        cuts = sorted({c for m in (7, 1024) for q in range(1, n // m + 1) for c in (q * m - 1, q * m, q * m + 1)
                       if 0 < c < n})
        if len(cuts) > 40:
            cuts = cuts[:20] + cuts[-20:]
        for a in cuts:
            out.append([a, n - a])
    return out


def text_pattern(n, seed):
    s = "".join("\n" if (i % 11 == 7) else chr(32 + (i * 7 + 3 + seed) % 95) for i in range(n))
    return s


def make(style="auto", plan=None, mux=None):
    import canopen
    simenv.new_world()
    bus = simenv.SimBus("inline")
    net = canopen.Network()
    bus.attach(net, "client")
    srv = StrictSdoServer(5, style=style, seg_plan=plan)
    srv.hold, srv.held = False, []

    def dev(can_id, data, remote=False):
        out = srv.on_frame(can_id, data, remote)
        if srv.hold:
            srv.held += out          # a slow server: its answers are in flight until the harness releases them
            return []
        return out
    bus.add_device(dev, "server")
    node = net.add_node(5, _od())
    srv.bus = bus
    return node, srv, bus


def predecessor(node, srv, pred, seed):
    """A complete earlier transfer on the same client object (history)."""
    if pred == "none":
        return
    srv.expected_mux = None
    if pred == "exp":
        node.sdo.download(0x2100, 1, simenv.pattern(2, seed + 5))
    elif pred == "seg3":
        node.sdo.download(0x2100, 1, simenv.pattern(15, seed + 5))   # 3 segments: odd count
        srv.store[(0x2100, 2)] = simenv.pattern(15, seed + 9)
        srv.style, keep = "seg_s", srv.style
        node.sdo.upload(0x2100, 2)
        srv.style = keep
    elif pred == "stream":
        with node.sdo.open(0x2100, 1, "wb", buffering=7) as fp:      # unknown size, 1 segment + closing segment
            fp.write(simenv.pattern(7, seed + 5))
    elif pred in ("late-ul", "late-dl", "aborted-ul"):
        # a FAILED earlier transfer on the same client: the answer arrives only after the client gave up (and sent its
        # abort), or the server refuses; the next transfer must not be affected
        import canopen
        srv.store[(0x2100, 2)] = simenv.pattern(3, seed + 9)
        srv.hold = pred != "aborted-ul"
        try:
            if pred == "late-ul":
                node.sdo.upload(0x2100, 2)
            elif pred == "late-dl":
                node.sdo.download(0x2100, 1, simenv.pattern(2, seed + 5))
            else:
                node.sdo.upload(0x2F00, 0x7F)              # no such object: the server aborts
            raise simenv.HarnessError(f"predecessor {pred} did not fail")
        except (canopen.SdoCommunicationError, canopen.SdoAbortedError):
            pass
        srv.hold = False
        for cid, fr in srv.held:
            srv.bus.inject(cid, fr)                        # the late answer reaches the client now
        del srv.held[:]
        srv.violations[:] = [v for v in srv.violations if False]
        simenv.W.timeouts = 0
    srv.frames.clear()
    srv.commits.clear()


def run_pred(node, srv, case, st):
    """Returns True if the predecessor transfer (itself a C01 transfer) went through cleanly."""
    try:
        predecessor(node, srv, case["pred"], case.get("seed", 0))
    except Exception as e:  # noqa: BLE001
        st.violation(f"C01:predecessor:{case['pred']}:raises:{type(e).__name__}", case, "returns normally", repr(e)[:200])
        return False
    if srv.violations:
        code, fr, txt = srv.violations[0]
        st.violation(f"C01:predecessor:{case['pred']}:frame:{code}", case, "legal CiA 301 request", f"{fr}: {txt}")
        return False
    return True


class _no_spin:
    """A raw stream that accepts nothing makes io.BufferedWriter spin in its flush loop (also the one of close());
    the alarm is re-armed so that the flush on leaving the with-block is interrupted as well."""

    def __init__(self, n=0):
        self.patience = 10.0 + n / 500.0       # generous: a long transfer on a loaded machine is not a spin

    def __enter__(self):
        import signal

        def stuck(*a):
            raise AssertionError("buffered write makes no progress")
        self.old = signal.signal(signal.SIGALRM, stuck)
        signal.setitimer(signal.ITIMER_REAL, self.patience, 0.5)

    def __exit__(self, *exc):
        import signal
        signal.setitimer(signal.ITIMER_REAL, 0)
        signal.signal(signal.SIGALRM, self.old)
        return False


def do_download(node, case, payload, split):
    api, buffering = case["api"], case["buf"]
    idx, sub = case["addr"]
    n = len(payload)
    if api == "download":
        node.sdo.download(idx, sub, payload)
    elif api == "force":
        node.sdo.download(idx, sub, payload, force_segment=True)
    elif api.startswith("text"):
        kw = {"size": n} if api == "text_size" else {}
        text = payload.decode("ascii")
        with node.sdo.open(idx, sub, "wt", buffering=buffering, **kw) as fp:
            off = 0
            for k in split:
                fp.write(text[off:off + k])
                off += k
    else:
        kw = {}
        if api in ("open_size", "open_size_force"):
            kw["size"] = n
        if api == "open_size_force":
            kw["force_segment"] = True
        with _no_spin(n), node.sdo.open(idx, sub, "wb", buffering=buffering, **kw) as fp:
            if buffering == 0:
                chunks = []
                off = 0
                for k in split:
                    chunks.append(payload[off:off + k])
                    off += k
                for chunk in chunks:
                    if case.get("empties"):
                        fp.write(b"")            # an empty write is a legal call and must not disturb the transfer
                    rest, guard = chunk, 0
                    while rest:
                        w = fp.write(rest)
                        guard += 1
                        if guard > 3 * len(chunk) + 10:
                            raise AssertionError("raw write makes no progress")
                        rest = rest[w or 0:]
            else:
                off = 0
                for k in split:
                    if case.get("empties"):
                        fp.write(b"")
                    fp.write(payload[off:off + k])
                    off += k
                if case.get("empties"):
                    fp.write(b"")


def run_download(case, st):
    n, seed = case["n"], case.get("seed", 0)
    text = case["api"].startswith("text")
    payload = text_pattern(n, seed).encode("ascii") if text else simenv.fill(n, seed, case.get("fill", "pattern"))
    chunked = case["api"].startswith(("open", "text"))
    splits = [case["split"]] if "split" in case else (splits_for(n) if chunked else [[n]])
    idx, sub = case["addr"]
    mux = bytes([idx & 0xFF, idx >> 8, sub])
    for split in splits:
        node, srv, bus = make()
        if not run_pred(node, srv, case, st):
            return
        srv.expected_mux = mux
        st.evaluations += 1
        err = None
        try:
            do_download(node, case, payload, split)
        except Exception as e:  # noqa: BLE001
            err = e
        rc = dict(case, split=split)
        nseg = sum(1 for f in srv.frames if int(f[:2], 16) >> 5 == 0)
        st.states += len(srv.frames) + 1
        st.transitions += len(srv.frames)
        st.traces += 1
        if nseg or case["pred"] != "none":
            st.nontrivial_n += 1
        if err is not None:
            st.violation(f"C01:download:{case['api']}:raises:{type(err).__name__}", rc, "returns normally",
                         repr(err)[:200] + " frames=" + ",".join(srv.frames[-4:]))
            if "makes no progress" in repr(err):
                return          # each further split of this case would cost the spin detector's patience again
            continue
        for code, fr, txt in srv.violations[:1]:
            st.violation(f"C01:download:frame:{code}:{case['api']}", rc, "legal CiA 301 request", f"{fr}: {txt}")
        got = srv.store.get((idx, sub))
        if got != payload or len(srv.commits) != 1:
            st.violation(f"C01:download:data:{case['api']}", rc, payload.hex(),
                         f"stored={None if got is None else got.hex()} commits={len(srv.commits)}")
        if bus.format_errors:
            st.violation("C01:download:can-format", rc, "legal CAN frame", repr(bus.format_errors[0]))
        if srv.st is not None:
            st.violation(f"C01:download:unfinished:{case['api']}", rc, "transfer completed at the server", srv.st["kind"])
        if simenv.W.timeouts:
            st.violation(f"C01:download:client-timed-out:{case['api']}", rc, "no time-out in an undisturbed transfer", simenv.W.timeouts)
        st.outcome("dl ok nseg>0" if nseg else "dl ok expedited")
    st.sample({"case": case, "splits": len(splits)}, cap=4)


def do_upload(node, case):
    idx, sub = case["addr"]
    mode = case["mode"]
    if mode == "upload":
        return node.sdo.upload(idx, sub)
    if mode == "raw":
        with node.sdo.open(idx, sub, "rb", buffering=0) as fp:
            got = b""
            for _ in range(20000):
                c = fp.read(7)
                if not c:
                    break
                got += c
            return got
    if mode == "text":
        with node.sdo.open(idx, sub, "rt", buffering=1024) as fp:
            return fp.read().encode("ascii")
    b, r = mode.split(":")
    if r.endswith("+all"):
        # a history of reads on one stream: a small read first, then "everything that is left"
        k = int(r[:-4])
        with node.sdo.open(idx, sub, "rb", buffering=int(b[1:])) as fp:
            if int(b[1:]) == 0:
                buf = bytearray(k)
                got = bytes(buf[:fp.readinto(buf) or 0])
            else:
                got = fp.read(k)
            return got + fp.read()
    with node.sdo.open(idx, sub, "rb", buffering=int(b[1:])) as fp:
        if r == "all":
            return fp.read()
        got = b""
        for _ in range(20000):
            c = fp.read(int(r))
            if not c:
                break
            got += c
        return got


def run_upload(case, st):
    n, seed = case["n"], case.get("seed", 0)
    text = case["mode"] == "text"
    data = text_pattern(n, seed).encode("ascii") if text else simenv.fill(n, seed, case.get("fill", "pattern"))
    idx, sub = case["addr"]
    node, srv, bus = make()
    if not run_pred(node, srv, case, st):
        return
    srv.style, srv.seg_plan = case["style"], case["plan"]
    srv.store[(idx, sub)] = data
    srv.expected_mux = bytes([idx & 0xFF, idx >> 8, sub])
    st.evaluations += 1
    exp = data
    if case["od"] in OD_WIDTHS and case["mode"] == "upload":
        exp = data[:OD_WIDTHS[case["od"]]]
    elif case["style"] == "exp_nos" and n < 4:
        st.exclude("expedited upload without size, <4 bytes, no fixed-size dictionary entry: length unknowable")
        return
    err = None
    try:
        got = do_upload(node, case)
    except Exception as e:  # noqa: BLE001
        err = e
    nseg = sum(1 for f in srv.frames if int(f[:2], 16) >> 5 == 3)
    st.states += len(srv.frames) + 1
    st.transitions += len(srv.frames)
    st.traces += 1
    if nseg or case["pred"] != "none":
        st.nontrivial_n += 1
    key = f"{case['mode']}:{case['style']}:{'short' if case['plan'] else 'full'}"
    if err is not None:
        st.violation(f"C01:upload:raises:{type(err).__name__}:{key}", case, "returns the data",
                     repr(err)[:200] + " frames=" + ",".join(srv.frames[-4:]))
        return
    for code, fr, txt in srv.violations[:1]:
        st.violation(f"C01:upload:frame:{code}:{key}", case, "legal CiA 301 request", f"{fr}: {txt}")
    if got != exp:
        st.violation(f"C01:upload:data:{key}:od-{'num' if case['od'] in OD_WIDTHS else case['od']}", case, exp.hex(),
                     bytes(got).hex())
    if srv.st is not None:
        st.violation(f"C01:upload:unfinished:{key}", case, "transfer completed at the server", srv.st["kind"])
    if simenv.W.timeouts:
        st.violation(f"C01:upload:client-timed-out:{key}", case, "no time-out in an undisturbed transfer", simenv.W.timeouts)
    if bus.format_errors:
        st.violation("C01:upload:can-format", case, "legal CAN frame", repr(bus.format_errors[0]))
    st.outcome("ul ok nseg>0" if nseg else "ul ok expedited")
    st.sample({"case": case}, cap=6)
    if case["od"] in OD_WIDTHS and case["mode"] == "upload" and n >= 2:
        # the application edits the dictionary entry (another fixed-size type) and uploads the same address again on the
        # same client: the result follows the dictionary as it is NOW
        from canopen.objectdictionary import datatypes as dt
        new = "UNSIGNED8" if OD_WIDTHS[case["od"]] > 1 else "UNSIGNED16"
        node.object_dictionary[idx].data_type = getattr(dt, new)
        want2 = data[:1 if new == "UNSIGNED8" else 2]
        st.evaluations += 1
        try:
            got2 = do_upload(node, case)
        except Exception as e:  # noqa: BLE001
            st.violation(f"C01:upload:raises:{type(e).__name__}:after-dictionary-edit", case, "returns the data", repr(e)[:200])
            return
        if got2 != want2:
            st.violation(f"C01:upload:data:{key}:after-dictionary-edit", case, want2.hex(), bytes(got2).hex())


def run_accessor(case, st):
    """node.sdo[<index or name>].open(...) / .data : the accessor must hand every argument through unchanged."""
    n, seed, api = case["n"], case.get("seed", 0), case["api"]
    text = api == "var_open_text"
    payload = text_pattern(n, seed).encode("ascii") if text else simenv.pattern(n, seed)
    obj = "dom" if api == "var_data_domain" else "str"
    idx = OD_INDEX[obj]
    mux = bytes([idx & 0xFF, idx >> 8, 0])
    for split in ([case["split"]] if "split" in case else (splits_for(n) if api.startswith("var_open") else [[n]])):
        node, srv, bus = make()
        srv.expected_mux = mux
        var = node.sdo[idx] if case["by"] == "index" else node.sdo["obj_" + obj]
        st.evaluations += 1
        st.traces += 1
        rc = dict(case, split=split)
        try:
            if api.startswith("var_open"):
                kw = {"size": n} if api == "var_open_size" else {}
                with var.open("wt" if text else "wb", buffering=case["buf"], **kw) as fp:
                    off = 0
                    for k in split:
                        chunk = payload[off:off + k]
                        fp.write(chunk.decode("ascii") if text else chunk)
                        off += k
            else:
                var.data = payload
            nseg = sum(1 for f in srv.frames if int(f[:2], 16) >> 5 == 0)
            if obj == "dom" and n and not nseg:
                st.violation("C01:accessor:domain-not-segmented", rc, "DOMAIN data is sent segmented", srv.frames[:2])
            got = srv.store.get((idx, 0))
            if got != payload or len(srv.commits) != 1:
                st.violation(f"C01:accessor:download-data:{api}", rc, payload.hex(), None if got is None else got.hex())
            for code, fr, txt in srv.violations[:1]:
                st.violation(f"C01:accessor:frame:{code}:{api}", rc, "legal CiA 301 request", f"{fr}: {txt}")
            # and back
            srv.frames.clear()
            if api == "var_open_text":
                with var.open("rt", buffering=case["buf"]) as fp:
                    back = fp.read().encode("ascii")
            elif api.startswith("var_open"):
                with var.open("rb", buffering=case["buf"]) as fp:
                    back = fp.read()
            else:
                back = var.data
            if bytes(back) != payload:
                st.violation(f"C01:accessor:upload-data:{api}", rc, payload.hex(), bytes(back).hex())
            for code, fr, txt in srv.violations[:1]:
                st.violation(f"C01:accessor:frame:{code}:{api}:upload", rc, "legal CiA 301 request", f"{fr}: {txt}")
            st.states += len(srv.frames) + 1
            st.transitions += len(srv.frames)
            if n > 4:
                st.nontrivial_n += 1
            st.outcome("accessor ok")
        except Exception as e:  # noqa: BLE001
            st.violation(f"C01:accessor:raises:{type(e).__name__}:{api}", rc, "transfer through the accessor", repr(e)[:150])


def run_short(case, st):
    size, w, seed = case["size"], case["written"], case.get("seed", 0)
    idx, sub = case["addr"]
    data = simenv.pattern(w, seed + 3)
    for pieces in ([w], [1] * w):
        node, srv, bus = make()
        srv.expected_mux = bytes([idx & 0xFF, idx >> 8, sub])
        st.evaluations += 1
        st.nontrivial_n += 1
        rc = dict(case, pieces=pieces)
        err = None
        try:
            with _no_spin(), node.sdo.open(idx, sub, "wb", size=size, buffering=case["buf"]) as fp:
                off = 0
                for k in pieces:
                    fp.write(data[off:off + k])
                    off += k
        except Exception as e:  # noqa: BLE001
            err = e
        got = srv.store.get((idx, sub))
        if err is not None:
            st.outcome("short: fails visibly")
            if got is not None and got != data:
                st.violation("C01:short:failed-but-stored-other-bytes", rc, f"nothing or {data.hex()}", got.hex())
        elif got != data or len(srv.commits) != 1:
            st.violation("C01:short:returns-normally-without-delivery", rc, f"an exception, or {data.hex()} at the server",
                         f"stored={None if got is None else got.hex()} commits={len(srv.commits)} frames={srv.frames}")
        else:
            st.outcome("short: written bytes delivered")
            for code, fr, txt in srv.violations[:1]:
                st.violation("C01:short:frame:" + code, rc, "legal CiA 301 request", f"{fr}: {txt}")


def run_excess(case, st):
    """More bytes written than an expedited transfer can carry: the write is refused (the library raises) and nothing
    of it reaches the server - neither at once nor when the stream is closed."""
    size, first, seed = case["size"], case["first"], case.get("seed", 0)
    idx, sub = case["addr"]
    data = simenv.pattern(case.get("total", 5), seed + 4)
    node, srv, bus = make()
    srv.expected_mux = bytes([idx & 0xFF, idx >> 8, sub])
    srv.store[(idx, sub)] = b"GOOD"
    st.evaluations += 1
    st.nontrivial_n += 1
    err = None
    try:
        with _no_spin(), node.sdo.open(idx, sub, "wb", size=size, buffering=0) as fp:
            fp.write(data[:first])
            fp.write(data[first:])
    except Exception as e:  # noqa: BLE001
        err = e
    got = srv.store.get((idx, sub))
    if err is None:
        st.violation("C01:excess:accepted", case, "the write beyond the announced size (or a 5th byte) is refused",
                     f"returned normally, stored={got.hex()} frames={srv.frames}")
    elif got != b"GOOD":
        st.violation("C01:excess:refused-but-stored", case, "value at the server unchanged (GOOD)",
                     f"{type(err).__name__}; stored={got.hex()} frames={srv.frames}")
    else:
        st.outcome("excess: refused, nothing sent")


def run_case(case, st):
    global ALL_COMPOSITIONS_UP_TO
    ALL_COMPOSITIONS_UP_TO = case.get("allsplits", 9)
    if case["dir"] == "excess":
        run_excess(case, st)
    elif case["dir"] == "short":
        run_short(case, st)
    elif case["dir"] == "acc":
        run_accessor(case, st)
    elif case["dir"] == "dl":
        run_download(case, st)
    else:
        run_upload(case, st)


def finish(st, tier):
    for k in ("dl ok nseg>0", "dl ok expedited", "ul ok nseg>0", "ul ok expedited"):
        if not st.outcomes.get(k) and not st.violations:
            raise simenv.HarnessError("vacuous: no case with outcome " + k)
