"""C04 — data type codec is the exact CiA 301 representation and never silently wraps.

Driver: ODVariable.encode_raw / decode_raw / __len__ of the working tree.
Oracle: mc.refs.codec (int.to_bytes / struct on the reference side only).
Enumeration (exhaustive within the stated sets), one case per (type, part).
"""
import itertools
import math
import struct

from mc.refs import codec

ID = "C04"
LEVEL = "exploration"
EXHAUSTIVE = True
RULE = ("per data type: every value of the 8/16-bit types, every v = +-2^k + d (k<=65, |d|<=2) and range ends +-2 for the "
        "wider integer types (in range: exact bytes + round trip; out of range: must raise), every byte string of length "
        "0..9 over the per-byte alphabet {00,01,7F,80,FF} (+ all 1- and 2-byte patterns), handed over as bytes / bytearray / "
        "memoryview in rotation (right length: decode == "
        "little-endian value and re-encode == pattern; wrong length: must raise), REAL32/64 grid incl. subnormals, "
        "infinities, -0.0, NaN by bit pattern and out-of-range magnitudes, all 128 ASCII code points and every BMP "
        "code point (one string per 256-block); plus, for every ordered pair of numeric types, every sequence of <=3 "
        "operations (len / encode in-range, at the ends, out of range / decode right, short, long, empty) on ONE variable "
        "object whose data_type is re-assigned in between, each step judged against the stateless reference. non-trivial = distinct (type, value-or-pattern) pairs that are not the "
        "plain in-range mid value, i.e. boundary, out-of-range, wrong-length or non-finite inputs")
ASSUMPTIONS = [
    "BOOLEAN is checked on {False, True, 0, 1} only (struct '?' truthiness of other ints is not ruled on by the statement)",
    "strings are generated without trailing NUL characters (the decoder strips them by design)",
    "any exception type counts as 'rejected'",
]
ALPHA = (0x00, 0x01, 0x7F, 0x80, 0xFF)


def bounds(tier):
    return {"byte_string_lengths": "0..9 over 5 byte values, all patterns" if tier == "thorough"
            else "0..9; all patterns for length<=6, corner subset above",
            "int8_16": "all values +-4 outside", "wide": "+-2^k+d, k<=65, |d|<=2"}


def cases(tier, seed):
    out = []
    for name in codec.INT_TYPES:
        out.append({"part": "int-values", "type": name})
        for L in range(0, 10):
            out.append({"part": "int-bytes", "type": name, "L": L, "full": tier == "thorough" or L <= 6})
    out.append({"part": "bool"})
    # two threads use the codec of the same type at once (the codec objects are module-level singletons): every schedule
    # with <= P preemptions at line / after-call granularity inside the objectdictionary package
    for name in ("UNSIGNED24", "INTEGER24", "INTEGER40", "UNSIGNED56", "INTEGER64", "UNSIGNED16", "REAL32"):
        out.append({"part": "threads", "type": name, "P": 1 if tier == "quick" else 2})
    # operation sequences on ONE variable object (and on the module-level codec objects behind it): every
    # (first type, second type) pair, every sequence of <=2 earlier operations before each judged operation
    hist_types = list(codec.INT_TYPES) + ["BOOLEAN", "REAL32", "REAL64"]
    for t1 in hist_types:
        for t2 in hist_types:
            out.append({"part": "history", "t1": t1, "t2": t2})
    for name in ("REAL32", "REAL64"):
        out.append({"part": "real", "type": name})
    out.append({"part": "visible"})
    for blk in range(0, 256, 16 if tier == "quick" else 4):
        out.append({"part": "unicode", "blocks": [blk, min(blk + (16 if tier == "quick" else 4), 256)]})
    if seed:
        k = seed % len(out)
        out = out[k:] + out[:k]
    return out


def _expired():
    from mc import simenv
    return simenv.expired()


def _var(name):
    from canopen.objectdictionary import ODVariable, datatypes as dt
    v = ODVariable("x", 0x2000)
    v.data_type = getattr(dt, name)
    return v


def _enc(v, x):
    try:
        return v.encode_raw(x), None
    except Exception as e:  # noqa: BLE001
        return None, type(e).__name__


def _dec(v, b):
    try:
        return v.decode_raw(b), None
    except Exception as e:  # noqa: BLE001
        return None, type(e).__name__


def _ops(name):
    """Small operation alphabet of one type: (kind, argument) with the stateless reference answer."""
    ops = [("len", None)]
    if name == "BOOLEAN":
        ops += [("enc", True), ("enc", False), ("dec", "01"), ("dec", "00"), ("dec", ""), ("dec", "0100")]
    elif name.startswith("REAL"):
        size = 4 if name == "REAL32" else 8
        ops += [("enc", -0.0), ("enc", 1.5), ("dec", (b"\x00" * (size - 2) + b"\xc0\xbf").hex()),
                ("dec", "3f" * (size - 1)), ("dec", "3f" * (size + 1))]
    else:
        w, signed = codec.int_info(name)
        lo, hi = codec.int_range(name)
        n = w // 8
        ops += [("enc", lo), ("enc", hi), ("enc", hi + 1), ("enc", lo - 1),
                ("dec", (b"\x01" + b"\x00" * (n - 1)).hex()), ("dec", (b"\xfe" + b"\xff" * (n - 1)).hex()),
                ("dec", "80" * (n - 1)), ("dec", "7f" * (n + 1)), ("dec", "")]
    return ops


def _ref(name, op):
    """('ok', value) / ('raise',) per the stateless reference."""
    kind, arg = op
    if kind == "len":
        return ("ok", 8 if name == "BOOLEAN" else 32 if name == "REAL32" else 64 if name == "REAL64"
                else codec.int_info(name)[0])
    if name == "BOOLEAN":
        if kind == "enc":
            return ("ok", bytes([1 if arg else 0]).hex())
        return ("ok", arg == "01") if len(arg) == 2 else ("raise",)
    if name.startswith("REAL"):
        fmt, size = ("<f", 4) if name == "REAL32" else ("<d", 8)
        if kind == "enc":
            return ("ok", struct.pack(fmt, arg).hex())
        b = bytes.fromhex(arg)
        return ("ok", struct.pack(fmt, struct.unpack(fmt, b)[0]).hex()) if len(b) == size else ("raise",)
    w, signed = codec.int_info(name)
    lo, hi = codec.int_range(name)
    if kind == "enc":
        return ("ok", codec.encode_int(name, arg).hex()) if lo <= arg <= hi else ("raise",)
    b = bytes.fromhex(arg)
    return ("ok", int.from_bytes(b, "little", signed=signed)) if len(b) == w // 8 else ("raise",)


def _do(v, name, op):
    kind, arg = op
    try:
        if kind == "len":
            return ("ok", len(v))
        if kind == "enc":
            return ("ok", v.encode_raw(arg).hex())
        r = v.decode_raw(bytes.fromhex(arg))
        if name.startswith("REAL"):
            r = struct.pack("<f" if name == "REAL32" else "<d", r).hex()
        return ("ok", r)
    except Exception as e:  # noqa: BLE001
        return ("raise", type(e).__name__)


def _history(case, st):
    from canopen.objectdictionary import ODVariable, datatypes as dt
    t1, t2 = case["t1"], case["t2"]
    if case.get("seq") is not None:
        seqs = [[(t, (k, a)) for t, (k, a) in case["seq"]]]
    else:
        o1, o2 = _ops(t1), _ops(t2)
        seqs = [[(t2, b)] for b in o2] if t1 == t2 else []
        seqs += [[(t1, a), (t2, b)] for a in o1 for b in o2]
        seqs += [[(t1, a), (t1, a2), (t2, b)] for a in o1 for a2 in o1 for b in o2]
        if t1 != t2:
            seqs += [[(t1, a), (t2, b), (t1, a2)] for a in o1[:4] for b in o2[:4] for a2 in o1]
    for seq in seqs:
        st.evaluations += 1
        st.traces += 1
        v = ODVariable("x", 0x2000)
        for n, (t, op) in enumerate(seq):
            op = (op[0], op[1])
            v.data_type = getattr(dt, t)
            got, want = _do(v, t, op), _ref(t, op)
            st.transitions += 1
            if got[0] != want[0] or (want[0] == "ok" and got[1] != want[1]):
                what = "rejected" if got[0] == "raise" else "accepted" if want[0] == "raise" else "wrong-result"
                st.violation(f"C04:history:{t}:{op[0]}:{what}:after-{'same' if n and seq[n - 1][0] == t else 'other' if n else 'no'}-type-use",
                             {"part": "history", "t1": t1, "t2": t2, "seq": [[t_, list(o_)] for t_, o_ in seq[:n + 1]]},
                             list(want), list(got))
                break
        else:
            st.outcome("sequence exact")
        if len(seq) > 1:
            st.nontrivial_n += 1
    st.sample({"history": [t1, t2], "sequences": len(seqs)})


def run_threads(case, st):
    import os
    import canopen
    from mc import simenv, vsched
    name = case["type"]
    root = os.path.join(os.path.dirname(os.path.abspath(canopen.__file__)), "objectdictionary")
    size = (4 if name == "REAL32" else codec.int_info(name)[0] // 8) if name != "REAL32" else 4
    pa = bytes([0x56, 0x34, 0x12, 0x01, 0x02, 0x03, 0x04, 0x05][:size])
    pb = bytes([0xFE, 0xFF, 0xFF, 0xFF, 0xFF, 0xFF, 0xFF, 0xFF][:size])
    if name == "REAL32":
        pa, pb = struct.pack("<f", 1.5), struct.pack("<f", -2.5)

    def ref(b):
        if name == "REAL32":
            return struct.unpack("<f", b)[0]
        return int.from_bytes(b, "little", signed=codec.int_info(name)[1])

    def harness(s):
        va, vb = _var(name), _var(name)

        def work(v, pat):
            def body():
                out = []
                for _ in range(2):
                    out.append(v.decode_raw(pat))
                    out.append(v.encode_raw(ref(pat)))
                return out
            return body
        ta = s.spawn(work(va, pa), "a")
        tb = s.spawn(work(vb, pb), "b")
        return lambda: ([t.res if t.exc is None else ("EXC", repr(t.exc)[:80]) for t in (ta, tb)], s.deadlock)

    def on_exec(s, out):
        res, deadlock = out
        st.evaluations += 1
        st.traces += 1
        st.transitions += len(s.trace)
        if s.pre:
            st.nontrivial_n += 1
        rc = dict(case, schedule=[t[1] for t in s.trace])
        for r, pat in zip(res, (pa, pb)):
            want = [ref(pat), pat, ref(pat), pat]
            if r != want:
                st.violation(f"C04:threads:{name}:{'exception' if r and r[0] == 'EXC' else 'wrong-result'}", rc,
                             [want[0], want[1].hex()], repr(r)[:160])
                return
        st.outcome("threads exact")

    if "schedule" in case:
        on_exec(*vsched.replay(harness, case, line_root=root, after_calls=True))
        return
    stats = vsched.explore_schedules(harness, case["P"], on_exec=on_exec, line_root=root, after_calls=True)
    st.states += stats["executions"]
    st.count("thread_schedules", stats["executions"])


def run_case(case, st):
    part = case["part"]
    if part == "threads":
        return run_threads(case, st)
    if part == "history":
        return _history(case, st)
    if part == "int-values":
        name = case["type"]
        only = case.get("only")
        w, signed = codec.int_info(name)
        lo, hi = codec.int_range(name)
        v = _var(name)
        if len(v) != w:
            st.violation(f"C04:len:{name}", case, w, len(v))
        cand = set()
        if w <= 16:
            cand |= set(range(lo - 4, hi + 5))
        for k in range(0, 66):
            for d in range(-2, 3):
                cand.add((1 << k) + d)
                cand.add(-(1 << k) + d)
        cand |= {lo + d for d in range(-2, 3)} | {hi + d for d in range(-2, 3)}
        if only is not None:
            cand = {only}
        for x in sorted(cand):
            st.evaluations += 1
            b, err = _enc(v, x)
            if lo <= x <= hi:
                want = codec.encode_int(name, x)
                if b != want:
                    st.violation(f"C04:encode:{name}:in-range:{err or 'wrong-bytes'}", dict(case, only=x),
                                 want.hex(), b.hex() if b is not None else err)
                    continue
                r, derr = _dec(v, b)
                if r != x:
                    st.violation(f"C04:decode:{name}:roundtrip", dict(case, only=x), x, r if derr is None else derr)
                if x in (lo, hi, 0, -1, lo + 1, hi - 1):
                    st.nontrivial.add((name, x))
                st.outcome("in-range exact")
            else:
                st.nontrivial.add((name, x))
                if b is not None:
                    st.violation(f"C04:encode:{name}:{'above' if x > hi else 'below'}-range:accepted",
                                 dict(case, only=x), "an exception", b.hex())
                else:
                    st.outcome("out-of-range rejected " + err)
        st.sample({"type": name, "values": len(cand), "range": [lo, hi]})
    elif part == "int-bytes":
        name, L = case["type"], case["L"]
        w, signed = codec.int_info(name)
        v = _var(name)
        if case.get("only") is not None:
            pats = [bytes.fromhex(case["only"])] * (case.get("box", 0) + 1)      # (same position in the container rotation)
        elif case["full"]:
            pats = [bytes(p) for p in itertools.product(ALPHA, repeat=L)]
            if L in (1, 2):
                pats = [bytes(p) for p in itertools.product(range(256), repeat=L)]
        else:
            head = [bytes(p) for p in itertools.product(ALPHA, repeat=4)]
            tails = [bytes(p) for p in itertools.product((0x00, 0x80, 0xFF), repeat=L - 4)]
            pats = [h + t for h in head for t in tails]
        for i, data in enumerate(pats):
            if i % 512 == 0 and i and _expired():
                st.caps.append("deadline reached inside a byte-pattern case")
                break
            st.evaluations += 1
            # the codec takes any bytes-like object: the container type rotates with the pattern
            box = (bytes, bytearray, memoryview)[i % 3]
            r, err = _dec(v, box(data))
            if L == w // 8:
                want = int.from_bytes(data, "little", signed=signed)
                if r != want:
                    st.violation(f"C04:decode:{name}:pattern:{box.__name__}", dict(case, only=data.hex(), box=i % 3), want,
                                 r if err is None else err)
                    continue
                b, eerr = _enc(v, r)
                if b != data:
                    st.violation(f"C04:reencode:{name}", dict(case, only=data.hex()), data.hex(),
                                 b.hex() if b is not None else eerr)
                st.outcome("pattern exact")
            else:
                if err is None:
                    st.violation(f"C04:decode:{name}:wrong-length:{'short' if L < w // 8 else 'long'}:accepted",
                                 dict(case, only=data.hex()), "an exception", r)
                else:
                    st.outcome("wrong-length rejected " + err)
            st.nontrivial_n += 1
        st.sample({"type": name, "length": L, "patterns": len(pats)})
    elif part == "bool":
        v = _var("BOOLEAN")
        if len(v) != 8:
            st.violation("C04:len:BOOLEAN", case, 8, len(v))
        for x in (False, True, 0, 1):
            st.evaluations += 1
            st.nontrivial.add(("BOOLEAN", repr(x)))
            b, err = _enc(v, x)
            if b != bytes([1 if x else 0]):
                st.violation("C04:encode:BOOLEAN", case, bytes([1 if x else 0]).hex(), b.hex() if b else err)
                continue
            r, derr = _dec(v, b)
            if r != bool(x):
                st.violation("C04:decode:BOOLEAN", case, bool(x), r if derr is None else derr)
        for data in (b"", b"\x00\x00", b"\x01\x00\x00"):
            st.evaluations += 1
            st.nontrivial.add(("BOOLEAN-bytes", data.hex()))
            r, err = _dec(v, data)
            if err is None:
                st.violation("C04:decode:BOOLEAN:wrong-length:accepted", case, "an exception", r)
    elif part == "real":
        name = case["type"]
        fmt = "<f" if name == "REAL32" else "<d"
        size = 4 if name == "REAL32" else 8
        v = _var(name)
        if len(v) != size * 8:
            st.violation(f"C04:len:{name}", case, size * 8, len(v))
        for bits in codec.real_grid_bits(name):
            st.evaluations += 1
            st.nontrivial.add((name, bits))
            pattern = bits.to_bytes(size, "little")
            x = struct.unpack(fmt, pattern)[0]
            b, err = _enc(v, x)
            if b != pattern and not (math.isnan(x) and b is not None and math.isnan(struct.unpack(fmt, b)[0])):
                st.violation(f"C04:encode:{name}", dict(case, bits=bits), pattern.hex(), b.hex() if b else err)
                continue
            r, derr = _dec(v, pattern)
            if derr is not None or struct.pack(fmt, r) != pattern and not math.isnan(x):
                st.violation(f"C04:decode:{name}", dict(case, bits=bits), x, r if derr is None else derr)
            st.outcome("real exact")
        # out-of-range magnitudes (REAL32 only has any) must raise, never wrap to inf silently
        if name == "REAL32":
            for x in (3.5e38, -3.5e38, 1e39, -1e300, 1.7976931348623157e308):
                st.evaluations += 1
                st.nontrivial.add((name, repr(x)))
                b, err = _enc(v, x)
                if b is not None:
                    st.violation("C04:encode:REAL32:out-of-range:accepted", dict(case, x=x), "an exception", b.hex())
                else:
                    st.outcome("real out-of-range rejected " + err)
        for L in range(0, 10):
            if L == size:
                continue
            st.evaluations += 1
            st.nontrivial.add((name, "len", L))
            r, err = _dec(v, bytes([0x3F] * L))
            if err is None:
                st.violation(f"C04:decode:{name}:wrong-length:accepted", dict(case, L=L), "an exception", r)
        st.sample({"type": name, "grid": len(codec.real_grid_bits(name))})
    elif part == "visible":
        v = _var("VISIBLE_STRING")
        strings = ["".join(chr(c) for c in range(1, 128)), "".join(chr(c) for c in range(127, 0, -1)), "",
                   "a\x00b", "\x00x"]
        strings += [chr(c) for c in range(1, 128)] + [chr(c) * 3 for c in range(1, 128)]
        for s in strings:
            st.evaluations += 1
            st.nontrivial.add(("VS", s))
            b, err = _enc(v, s)
            want = s.encode("ascii")
            if b != want:
                st.violation("C04:encode:VISIBLE_STRING", dict(case, s=s), want.hex(), b.hex() if b is not None else err)
                continue
            r, derr = _dec(v, b)
            if r != s:
                st.violation("C04:decode:VISIBLE_STRING", dict(case, s=s), s, r if derr is None else derr)
        st.sample({"type": "VISIBLE_STRING", "strings": len(strings)})
    elif part == "unicode":
        v = _var("UNICODE_STRING")
        lo, hi = case["blocks"]
        for blk in range(lo, hi):
            cps = [c for c in range(blk * 256, blk * 256 + 256) if not 0xD800 <= c <= 0xDFFF and c != 0]
            if not cps:
                continue
            for s in ("".join(map(chr, cps)), "".join(map(chr, reversed(cps)))):
                st.evaluations += 1
                st.nontrivial.add(("US", blk, s[:1]))
                b, err = _enc(v, s)
                want = s.encode("utf-16-le")
                if b != want:
                    st.violation("C04:encode:UNICODE_STRING", dict(case, block=blk), want.hex()[:40],
                                 b.hex()[:40] if b is not None else err)
                    continue
                r, derr = _dec(v, b)
                if r != s:
                    st.violation("C04:decode:UNICODE_STRING", dict(case, block=blk), s[:8], (r or "")[:8] if derr is None else derr)
        st.sample({"type": "UNICODE_STRING", "blocks": [lo, hi]})


def finish(st, tier):
    from mc.simenv import HarnessError
    if st.outcomes.get("in-range exact", 0) < 2 * 65536:
        raise HarnessError("8/16-bit types not exhaustively covered")
    if st.outcomes.get("sequence exact", 0) < 19 * 19 * 50:
        raise HarnessError("operation-sequence part not covered")
    if not any(k.startswith("wrong-length rejected") for k in st.outcomes):
        raise HarnessError("no wrong-length decode exercised")
