"""C10 — frames reach exactly the handlers subscribed at that moment.

Explorer B to closure: subscribe / unsubscribe / node add, replace, remove over a small pool of
CAN ids, callbacks and node ids on the real Network, with a reference multimap stepped in
lock-step; after every transition every notify probe (user ids, each node service id, error and
remote frames through the real MessageListener) is evaluated and compared.  Enumeration parts:
frame format of outgoing frames and the node scanner over all 2048 11-bit ids + 29-bit ids.
"""
import struct

from mc import kernel, simenv

ID = "C10"
LEVEL = "model_checking"
EXHAUSTIVE = True
RULE = ("closure of {subscribe(id,cb), unsubscribe(id,cb), unsubscribe(id), add/replace node as remote or local, delete "
        "node} over ids {0x000, 0x585} (+0x181 to a depth), callbacks {a,b}, node ids {5} (quick) / {5,6} (thorough); in "
        "every reached state every probe frame (each pool id, each service id of each node, error/remote frames) is "
        "delivered and the invocation log / node effects compared with the reference multimap; states de-duplicated on "
        "(subscriber lists with handler owners marked current/stale, node table). non-trivial = distinct states with at "
        "least one node or two subscriptions")
ASSUMPTIONS = [
    "unsubscribe(id, cb) and unsubscribe(id) are only applied where defined (cb subscribed / id known and no node handler on it)",
    "node handlers are observed through their effects (SDO response queue, NMT state + timestamp, EMCY log, server response frame)",
    "scanner: listed = ids <= 0x7FF whose function code is EMCY, TPDO1-4, SDO-tx or heartbeat and whose node id is not 0",
]
OD = None


def od():
    global OD
    if OD is None:
        from canopen.objectdictionary import ODVariable, ObjectDictionary, datatypes as dt
        OD = ObjectDictionary()
        v = ODVariable("hb", 0x1017)
        v.data_type = dt.UNSIGNED16
        v.default = 0
        OD.add_object(v)
    return OD


def bounds(tier):
    return {"closure": "ids {0x000,0x585}, callbacks {a,b}, node ids " + ("{5}" if tier == "quick" else "{5,6}"),
            "third_id_depth": 3 if tier == "quick" else 4, "scanner_ids": "all 2048 11-bit ids, forward and reversed, + 29-bit set"}


class Rec:
    def __init__(self, name, log):
        self.name = name
        self.log = log

    def __call__(self, cid, data, ts):
        self.log.append((self.name, cid, bytes(data), ts))


class Sim:
    IDS = (0x000, 0x585)
    NODEIDS = (5,)

    def __init__(self):
        import canopen
        simenv.new_world()
        self.bus = simenv.SimBus("inline")
        self.net = canopen.Network()
        self.bus.attach(self.net, "net")
        self.log = []
        self.cbs = {c: Rec(c, self.log) for c in "ab"}
        self.ref = {}            # id -> ordered list of tokens; token = 'a' | 'b' | (serial, kind)
        # the network itself subscribes the LSS master
        self.ref[0x7E4] = [("lss", "lss")]
        self.nodes = {}          # nid -> (serial, kind, node)
        self.all_nodes = []      # every node object ever created: (serial, kind, nid, node)
        self.serial = 0
        self.extra = set()       # serials of remote nodes that got a second SDO channel while attached

    # ---- reference helpers
    def _ref_sub(self, cid, tok):
        lst = self.ref.setdefault(cid, [])
        if tok not in lst:
            lst.append(tok)

    def _ref_unsub(self, cid, tok):
        self.ref[cid].remove(tok)

    def _handlers(self, serial, kind, nid):
        if kind == "remote":
            h = [(0x580 + nid, (serial, "sdo")), (0x700 + nid, (serial, "hb")), (0x80 + nid, (serial, "emcy")),
                 (0, (serial, "nmt"))]
            if serial in self.extra:
                h.append((0x5A0 + nid, (serial, "sdo2")))
            return h
        return [(0x600 + nid, (serial, "sdo")), (0, (serial, "nmt"))]

    def enabled(self):
        ev = []
        for i in self.IDS:
            for c in "ab":
                ev.append(("sub", i, c))
                if c in self.ref.get(i, []):
                    ev.append(("unsub", i, c))
            if i in self.ref and all(isinstance(t, str) for t in self.ref[i]):
                ev.append(("unsuball", i))
        for nid in self.NODEIDS:
            ev += [("remote", nid), ("local", nid)]
            if nid in self.nodes:
                ev.append(("del", nid))
                ev.append(("readd", nid))
                s0, k0, _ = self.nodes[nid]
                if k0 == "remote" and s0 not in self.extra:
                    ev.append(("addsdo", nid))
        return ev

    def do(self, e):
        import canopen
        k = e[0]
        if k == "sub":
            self.net.subscribe(e[1], self.cbs[e[2]])
            self._ref_sub(e[1], e[2])
        elif k == "unsub":
            self.net.unsubscribe(e[1], self.cbs[e[2]])
            self._ref_unsub(e[1], e[2])
        elif k == "unsuball":
            self.net.unsubscribe(e[1])
            del self.ref[e[1]]
        elif k in ("remote", "local"):
            nid = e[1]
            node = canopen.RemoteNode(nid, od()) if k == "remote" else canopen.LocalNode(nid, od())
            if nid in self.nodes:
                s0, k0, _ = self.nodes[nid]
                for cid, tok in self._handlers(s0, k0, nid):
                    self._ref_unsub(cid, tok)
            self.serial += 1
            self.net.add_node(node)
            self.nodes[nid] = (self.serial, k, node)
            self.all_nodes.append((self.serial, k, nid, node))
            for cid, tok in self._handlers(self.serial, k, nid):
                self._ref_sub(cid, tok)
        elif k == "readd":
            # the node object that is already present is added again: detach + attach of the same object
            nid = e[1]
            s0, k0, node = self.nodes[nid]
            for cid, tok in self._handlers(s0, k0, nid):
                self._ref_unsub(cid, tok)
            self.net.add_node(node)
            for cid, tok in self._handlers(s0, k0, nid):
                self._ref_sub(cid, tok)
        elif k == "addsdo":
            nid = e[1]
            s0, k0, node = self.nodes[nid]
            node.add_sdo(0x620 + nid, 0x5A0 + nid)
            self.extra.add(s0)
            self._ref_sub(0x5A0 + nid, (s0, "sdo2"))
        elif k == "del":
            nid = e[1]
            s0, k0, _ = self.nodes.pop(nid)
            del self.net[nid]
            for cid, tok in self._handlers(s0, k0, nid):
                self._ref_unsub(cid, tok)

    # ---- observation of node handlers
    def snapshot(self):
        snap = {}
        for serial, kind, nid, node in self.all_nodes:
            if kind == "remote":
                snap[serial] = (tuple(node.sdo.responses.items), node.nmt._state, node.nmt.timestamp,
                                tuple((x.code, x.timestamp) for x in node.emcy.log),
                                tuple(tuple(c.responses.items) for c in node.sdo_channels[1:]))
            else:
                snap[serial] = (node.nmt._state,)
        return snap

    def canon(self):
        cur = {s for (s, k, n) in self.nodes.values()}

        def tok(cb):
            if isinstance(cb, Rec):
                return cb.name
            o = getattr(cb, "__self__", None)
            name = getattr(cb, "__name__", "?")
            owner = "?"
            for serial, kind, nid, node in self.all_nodes:
                if o is node.sdo or o is node.nmt or o is getattr(node, "emcy", None) or \
                        o in getattr(node, "sdo_channels", ()):
                    owner = f"{kind}{nid}:{'cur' if serial in cur else 'stale'}"
            if type(o).__name__ == "LssMaster":
                owner = "lss"
            return f"{owner}.{name}"
        return (tuple(sorted((k, tuple(tok(c) for c in v)) for k, v in self.net.subscribers.items())),
                tuple(sorted((k, type(v).__name__) for k, v in self.net.nodes.items())))


def probes(sim):
    """Deliver probe frames in the current state; returns verdicts."""
    v = []
    ids = set(sim.IDS)
    for serial, kind, nid, node in sim.all_nodes:
        ids |= {c for c, _ in sim._handlers(serial, kind, nid)}
    n = 0
    for cid in sorted(ids):
        for via in ("notify", "listener"):
            n += 1
            ts = 1000.0 + n
            if cid == 0:
                data = bytes([1 if n % 2 else 2, sim.NODEIDS[0]])                # NMT start/stop node
            elif 0x600 <= cid < 0x680:
                data = bytes([0x40, 0x17, 0x10, 0, 0, 0, 0, 0])                   # upload 0x1017
            elif 0x700 <= cid < 0x780:
                data = bytes([5 if n % 2 else 4])
            else:
                data = bytes([0x10 + n, 0x21, 0x01, 1, 2, 3, 4, 5])
            before = sim.snapshot()
            del sim.log[:]
            nlog = len(sim.bus.log)
            try:
                if via == "notify":
                    sim.net.notify(cid, bytearray(data), ts)
                else:
                    import can
                    sim.net.listeners[0].on_message_received(
                        can.Message(arbitration_id=cid, data=data, is_extended_id=False, timestamp=ts))
            except Exception as ex:  # noqa: BLE001
                v.append((f"C10:notify-raises:{type(ex).__name__}", "delivery to current subscribers only",
                          f"id 0x{cid:X}: {ex!r}"[:200]))
                continue
            toks = sim.ref.get(cid, [])
            want_log = [(t, cid, data, ts) for t in toks if isinstance(t, str)]
            if sim.log != want_log:
                v.append(("C10:user-callbacks", want_log, list(sim.log)))
            after = sim.snapshot()
            sent = [(c, d) for (src, c, d, rem, ext) in sim.bus.log[nlog:]]
            live = {t[0]: t[1] for t in toks if isinstance(t, tuple) and t[0] != "lss"}
            want_sent = []
            for serial, kind, nid, node in sim.all_nodes:
                b, a = before[serial], after[serial]
                handler = live.get(serial)
                if handler is None:
                    if a != b:
                        v.append((f"C10:stale-handler:{kind}", f"node #{serial} (removed/replaced or not addressed) unchanged",
                                  f"id 0x{cid:X}: {b} -> {a}"[:250]))
                    continue
                if kind == "remote":
                    if handler == "sdo" and a[0] != b[0] + (data,):
                        v.append(("C10:handler:remote-sdo", "response queued once", f"{b[0]} -> {a[0]}"[:200]))
                    if handler == "sdo2" and a[4] != ((b[4][0] if b[4] else ()) + (data,),):
                        v.append(("C10:handler:remote-sdo-extra-channel", "response queued once", f"{b[4]} -> {a[4]}"[:200]))
                    if handler == "hb" and (a[1], a[2]) != (data[0] & 0x7F or 127, ts):
                        v.append(("C10:handler:remote-heartbeat", (data[0], ts), (a[1], a[2])))
                    if handler == "emcy" and len(a[3]) != len(b[3]) + 1:
                        v.append(("C10:handler:remote-emcy", "one log entry", f"{len(b[3])} -> {len(a[3])}"))
                    if handler == "nmt" and data[1] in (0, nid) and a[1] != {1: 5, 2: 4}[data[0]]:
                        v.append(("C10:handler:remote-nmt", {1: 5, 2: 4}[data[0]], a[1]))
                else:
                    if handler == "sdo":
                        want_sent.append(0x580 + nid)
                    if handler == "nmt" and data[1] in (0, nid) and a[0] != {1: 5, 2: 4}[data[0]]:
                        v.append(("C10:handler:local-nmt", {1: 5, 2: 4}[data[0]], a[0]))
            if sorted(c for c, d in sent) != sorted(want_sent):
                v.append(("C10:responses", [hex(c) for c in want_sent], [hex(c) for c, d in sent]))
        # error and remote frames are never dispatched
        import can
        for kw in ({"is_error_frame": True}, {"is_remote_frame": True}):
            before = sim.snapshot()
            del sim.log[:]
            sim.net.listeners[0].on_message_received(
                can.Message(arbitration_id=cid, data=b"" if "is_remote_frame" in kw else bytes(8), is_extended_id=False,
                            timestamp=5.0, **kw))
            if sim.log or sim.snapshot() != before:
                v.append((f"C10:{list(kw)[0]}-dispatched", "not dispatched", f"id 0x{cid:X} log={sim.log}"[:200]))
    return v


def apply(sim, e):
    sim.do(e)
    # structural comparison with the reference multimap
    v = []
    real = {k: len(c) for k, c in sim.net.subscribers.items() if c}
    ref = {k: len(c) for k, c in sim.ref.items() if c}
    if real != ref:
        v.append(("C10:subscriber-count", ref, real))
    v += probes(sim)
    return v


def make_sim(ids, nodeids):
    class S(Sim):
        IDS = tuple(ids)
        NODEIDS = tuple(nodeids)
    return S


def cases(tier, seed):
    out = [{"part": "format"}, {"part": "scanner", "order": "fwd"}, {"part": "scanner", "order": "rev"},
           {"part": "scanner", "order": "ext"}, {"part": "reentrant"}]
    out.append({"part": "scanner-seq", "depth": 5 if tier == "quick" else 7})
    for op in ("del-node", "unsub-a", "unsub-b", "replace-node", "sub-d"):
        out.append({"part": "concurrent", "op": op, "P": 1 if tier == "quick" else 2})
    out.append({"part": "bfs", "ids": [0x000, 0x585, 0x181], "nodeids": [5, 6], "depth": 3 if tier == "quick" else 4})
    return out


def run_main(tier, seed, jobs, st):
    nodeids = [5] if tier == "quick" else [5, 6]
    S = make_sim([0x000, 0x585], nodeids)
    res = kernel.bfs_parallel(S, apply, lambda s: s.enabled(), lambda s: s.canon(), jobs=jobs,
                              terminal=lambda sim, v: bool(v), max_states=300000)
    _merge(res, st, {"part": "bfs", "ids": [0x000, 0x585], "nodeids": nodeids, "depth": None})


def _merge(res, st, case):
    st.states += res["states"]
    st.transitions += res["transitions"]
    st.traces += res["transitions"]
    st.evaluations += res["transitions"]
    st.nontrivial_n += max(res["states"] - 5, 0)
    seen = set()
    for h, (sig, exp, obs) in res["verdicts"]:
        if sig in seen:
            continue
        seen.add(sig)
        st.violation(sig, dict(case, hist=[list(e) for e in h]), exp, obs)
    if case["depth"] is None and not res["closed"]:
        st.caps.append(f"closure not reached for {case}")
    st.outcome(f"bfs {'closed' if res['closed'] else 'depth %d' % res['depth']} ids={len(case['ids'])} nodes={len(case['nodeids'])}")
    st.sample({"bfs": case, "states": res["states"], "transitions": res["transitions"], "closed": res["closed"]})


def run_reentrant(case, st):
    """Callbacks that subscribe / unsubscribe while a frame is being delivered: the frame reaches the callbacks that
    were subscribed when it was received and still are when their turn comes, once each, in subscription order."""
    import itertools
    import canopen
    # ("nested": the callback makes the library dispatch another frame - e.g. it sends on a looped-back interface -
    # before it goes on)
    actions = ("none", "unsub-self", "unsub-next", "unsub-prev", "sub-new", "unsub-all-others", "nested", "nested+unsub-self")
    for k in (1, 2, 3):
        for combo in itertools.product(actions, repeat=k):
            if "combo" in case and list(combo) != case["combo"]:
                continue
            net = canopen.Network()
            log = []
            cbs = []

            def extra(cid, data, ts):
                log.append("new")

            def mk(i):
                def cb(cid, data, ts):
                    log.append(i)
                    act = combo[i]
                    if act.startswith("nested"):
                        net.notify(0x124, bytearray(b"\x09"), ts)
                        act = act[7:] or "none"
                    try:
                        if act == "unsub-self":
                            net.unsubscribe(0x123, cbs[i])
                        elif act == "unsub-next" and i + 1 < k:
                            net.unsubscribe(0x123, cbs[i + 1])
                        elif act == "unsub-prev" and i > 0:
                            net.unsubscribe(0x123, cbs[i - 1])
                        elif act == "sub-new":
                            net.subscribe(0x123, extra)
                        elif act == "unsub-all-others":
                            for j in range(k):
                                if j != i and cbs[j] in net.subscribers.get(0x123, []):
                                    net.unsubscribe(0x123, cbs[j])
                    except ValueError:
                        pass
                return cb
            cbs.extend(mk(i) for i in range(k))
            for cb in cbs:
                net.subscribe(0x123, cb)
            net.subscribe(0x124, lambda cid, data, ts: log.append("n"))
            st.evaluations += 1
            st.transitions += 1
            if any(a != "none" for a in combo):
                st.nontrivial.add(("reentrant", combo))
            rc = dict(case, combo=list(combo))
            try:
                net.notify(0x123, bytearray(b"\x01"), 1.0)
            except Exception as e:  # noqa: BLE001
                st.violation(f"C10:reentrant:raises:{type(e).__name__}", rc, "frame delivered", repr(e)[:100])
                continue
            # expected: the callbacks subscribed when the frame was received, in subscription order, except those that
            # an earlier callback of this very frame has unsubscribed before their turn (unsubscribe() has returned:
            # their owner may be gone); callbacks subscribed during the dispatch do not get this frame
            want, alive = [], set(range(k))
            for i in range(k):
                if i not in alive:
                    continue
                want.append(i)
                act = combo[i]
                if act.startswith("nested"):
                    want.append("n")
                    act = act[7:] or "none"
                if act == "unsub-self":
                    alive.discard(i)
                elif act == "unsub-next":
                    alive.discard(i + 1)
                elif act == "unsub-prev":
                    alive.discard(i - 1)
                elif act == "unsub-all-others":
                    alive &= {i}
            if log != want:
                kind = "skipped" if len(log) < len(want) else ("delivered-to-late-subscriber" if "new" in log else "order")
                st.violation(f"C10:reentrant:{kind}", rc, list(want), list(log))
            else:
                st.outcome("reentrant ok")
            # the next frame reaches exactly the callbacks subscribed now
            now = [("new" if c is extra else cbs.index(c)) for c in net.subscribers.get(0x123, [])]
            del log[:]
            acts_off = True
            combo_saved, combo = combo, tuple("none" for _ in combo)
            try:
                net.notify(0x123, bytearray(b"\x02"), 2.0)
            except Exception as e:  # noqa: BLE001
                st.violation(f"C10:reentrant:next-frame-raises:{type(e).__name__}", rc, now, repr(e)[:100])
            if log != now:
                st.violation("C10:reentrant:next-frame", rc, now, log)
            combo = combo_saved
    st.states += 1
    st.sample({"reentrant": "callbacks changing the subscription during delivery", "max callbacks": 3})


def run_concurrent(case, st):
    """The receive thread dispatches a frame while the application thread changes the subscriptions of the same id:
    every callback that stays subscribed throughout must be invoked exactly once (line-level schedule exploration)."""
    import os
    import canopen
    from mc import vsched
    root = os.path.dirname(os.path.abspath(canopen.__file__))
    op = case["op"]

    def harness(s):
        net = canopen.Network()
        simenv.SimBus("inline").attach(net, "n")
        log = []
        a, b, c, d = Rec("a", log), Rec("b", log), Rec("c", log), Rec("d", log)
        n5 = net.add_node(canopen.RemoteNode(5, od()))
        net.subscribe(0, a)
        n6 = net.add_node(canopen.RemoteNode(6, od()))
        net.subscribe(0, b)
        net.subscribe(0, c)

        def receiver():
            net.notify(0, bytearray([1, 0]), 7.0)             # NMT start, broadcast

        spare = canopen.RemoteNode(5, od())      # built outside the scheduled threads (its constructor is not the subject)

        def app():
            if op == "del-node":
                del net[5]
            elif op == "unsub-a":
                net.unsubscribe(0, a)
            elif op == "unsub-b":
                net.unsubscribe(0, b)
            elif op == "replace-node":
                net.add_node(spare)
            elif op == "sub-d":
                net.subscribe(0, d)
        s.spawn(receiver, "receiver")
        s.spawn(app, "app")

        def result():
            first = tuple(x[0] for x in log)
            st6 = n6.nmt._state
            del log[:]
            if not s.deadlock:
                # both threads are done: a second frame must reach exactly the handlers subscribed now
                net.notify(0, bytearray([2, 0]), 8.0)
            return first, st6, s.deadlock, tuple(x[0] for x in log), n6.nmt._state
        return result

    def on_exec(s, out):
        log, st6, deadlock, log2, st6b = out
        st.evaluations += 1
        st.traces += 1
        st.transitions += len(s.trace)
        if s.pre:
            st.nontrivial_n += 1
        rc = dict(case, schedule=[t[1] for t in s.trace])
        stay = [x for x in "abc" if not (op == "unsub-a" and x == "a") and not (op == "unsub-b" and x == "b")]
        probs = []
        for x in stay:
            if log.count(x) != 1:
                probs.append(f"callback {x} invoked {log.count(x)} times")
        if st6 != 5:
            probs.append(f"node 6 (untouched) missed the NMT broadcast: state {st6}")
        if deadlock:
            probs.append(f"deadlock {deadlock}")
        else:
            now = stay + (["d"] if op == "sub-d" else [])
            if sorted(log2) != sorted(now) or st6b != 4:
                st.violation(f"C10:concurrent:{op}:later-frame", rc, f"the next frame reaches exactly {now} and node 6",
                             f"reached {list(log2)}, node 6 state {st6b}")
        if probs:
            st.violation(f"C10:concurrent:{op}:handler-skipped", rc, "every handler that stays subscribed sees the frame once", probs)
        st.outcome(f"concurrent {op}: {'ok' if not probs else 'bad'}")

    if "schedule" in case:
        on_exec(*vsched.replay(harness, case, line_root=root, horizon=20000, after_calls=True))
        return
    stats = vsched.explore_schedules(harness, case["P"], on_exec=on_exec, line_root=root, horizon=20000, after_calls=True)
    st.states += stats["executions"]
    st.count("line_level_schedules", stats["executions"])
    st.sample({"concurrent": case, "schedules": stats["executions"], "points": stats["max_points"]}, cap=8)


def run_case(case, st):
    if case["part"] == "reentrant":
        return run_reentrant(case, st)
    if case["part"] == "concurrent":
        return run_concurrent(case, st)
    if case["part"] == "bfs":
        S = make_sim(case["ids"], case["nodeids"])
        if "hist" in case:
            sim = S()
            v = []
            for e in case["hist"]:
                v = apply(sim, tuple(e))
            for sig, exp, obs in v:
                st.violation(sig, case, exp, obs)
            return
        res = kernel.bfs(S, apply, lambda s: s.enabled(), lambda s: s.canon(), max_depth=case["depth"],
                         terminal=lambda sim, v: bool(v), max_states=50000)
        _merge(res, st, case)
    elif case["part"] == "format":
        run_format(case, st)
    elif case["part"] == "scanner-seq":
        run_scanner_seq(case, st)
    else:
        run_scanner(case, st)


def run_format(case, st):
    import canopen
    simenv.new_world()
    bus = simenv.SimBus("inline")
    net = canopen.Network()
    bus.attach(net, "net")
    ids = list(range(0, 0x800)) + [0x800, 0x801, 0xFFFF, 0x10000, 0x1FFFFFFE, 0x1FFFFFFF] + [1 << b for b in range(11, 29)]
    for cid in ids:
        for remote in (False, True):
            for data in (b"", b"\x01", bytes(range(8))):
                st.evaluations += 1
                n0 = len(bus.log)
                net.send_message(cid, data, remote=remote)
                rows = bus.log[n0:]
                want = [("net", cid, b"" if remote and False else data, remote, cid > 0x7FF)]
                if remote:
                    want = [("net", cid, rows[0][2] if rows else b"", True, cid > 0x7FF)]
                if rows != want:
                    st.violation("C10:frame-format", dict(case, id=cid, remote=remote), want, rows)
                if cid in (0x7FF, 0x800):
                    st.nontrivial.add(("fmt", cid, remote, len(data)))
    if bus.format_errors:
        st.violation("C10:frame-format:extended-flag", case, "extended exactly for ids > 0x7FF", repr(bus.format_errors[0])[:200])
    st.states += 1
    st.transitions += len(ids) * 6
    st.sample({"frame-format ids": len(ids)})


def scanner_expected(ids):
    out = []
    for cid in ids:
        if cid > 0x7FF:
            continue
        fc, nid = cid & 0x780, cid & 0x7F
        if nid and fc in (0x080, 0x180, 0x280, 0x380, 0x480, 0x580, 0x700) and nid not in out:
            out.append(nid)
    return out


def run_scanner(case, st):
    import canopen
    net = canopen.Network()
    if case["order"] == "fwd":
        ids = list(range(0x800))
    elif case["order"] == "rev":
        ids = list(range(0x7FF, -1, -1))
    else:
        ext = [0x800, 0x10000705, 0x18FF0702, 0x1FFFFFFF, 0x00000881] + [(1 << b) | 0x701 for b in range(11, 29)]
        ids = [0x703] + ext + [0x185, 0x703, 0x185, 0x605, 0x585, 0x80, 0x100, 0x081]
    got_each = []
    for cid in ids:
        st.evaluations += 1
        net.notify(cid, bytearray(b"\x05"), 0.0)
    want = scanner_expected(ids)
    if net.scanner.nodes != want:
        # shortest witness: first divergence
        k = next((i for i, (a, b) in enumerate(zip(net.scanner.nodes + [None], want + [None])) if a != b), 0)
        st.violation(f"C10:scanner:{case['order']}", case, want[max(0, k - 2):k + 3], net.scanner.nodes[max(0, k - 2):k + 3])
    st.nontrivial.add(("scanner", case["order"]))
    net.scanner.reset()
    if net.scanner.nodes != []:
        st.violation("C10:scanner:reset", case, [], net.scanner.nodes)
    st.states += 1
    st.transitions += len(ids)
    st.sample({"scanner": case["order"], "ids": len(ids), "listed": len(want)})


SCAN_ALPHA = (0x705, 0x185, 0x706, 0x605, "reset")


def run_scanner_seq(case, st):
    """Every sequence of frames / reset() up to the depth: the list is the ids seen since the last reset, first appearance order."""
    import itertools
    import canopen
    seqs = [case["seq"]] if "seq" in case else (list(q) for n in range(1, case["depth"] + 1)
                                                for q in itertools.product(SCAN_ALPHA, repeat=n))
    n = 0
    for seq in seqs:
        n += 1
        st.evaluations += 1
        st.traces += 1
        net = canopen.Network()
        since = []
        for k, e in enumerate(seq):
            st.transitions += 1
            if e == "reset":
                net.scanner.reset()
                since = []
            else:
                net.notify(e, bytearray(b"\x05"), 0.0)
                since.append(e)
            if net.scanner.nodes != scanner_expected(since):
                st.violation("C10:scanner:sequence" + (":after-reset" if "reset" in seq[:k] else ""),
                             {"part": "scanner-seq", "seq": list(seq[:k + 1])}, scanner_expected(since), list(net.scanner.nodes))
                break
        if "reset" in seq:
            st.nontrivial_n += 1
    st.states += n
    st.sample({"scanner-seq": case.get("depth"), "sequences": n})


def finish(st, tier):
    if st.states < 500 and not st.violations:
        raise simenv.HarnessError("closure smaller than expected")
