"""C05 — PDO variables occupy exactly their mapped bits.

Exhaustive enumeration of mapping layouts x field values x initial frame contents on the real
PdoMap / PdoVariable, judged by a 64-bit little-endian bit-field model (frame as an integer).
"""
import itertools
import struct

from mc import simenv

ID = "C05"
LEVEL = "exploration"
EXHAUSTIVE = True
RULE = ("all layouts of 1..3 fields over the full field alphabet (BOOLEAN:1, BOOLEAN:8, UNSIGNED8:k and INTEGER8:k for "
        "k=1..8, every 16..64-bit integer type, REAL32, REAL64 at full length, eight wider integer objects mapped with fewer "
        "bits than they have: INTEGER32:24, UNSIGNED16:8, UNSIGNED32:16, INTEGER16:12, UNSIGNED64:40, INTEGER64:56, UNSIGNED24:16, "
        "INTEGER40:8) with total <= 64 bits, all layouts of 4..N "
        "fields over the reduced alphabet {BOOLEAN:1, UNSIGNED8:4, INTEGER8:3, UNSIGNED8:8, INTEGER16}; per field every "
        "value for length <= 8 (boundary set above / in 3+-field layouts), three initial frame contents; each evaluation "
        "reads the field and writes it, comparing the whole frame; plus two-write sequences on neighbouring fields; every "
        "layout is evaluated on a fresh map object, and every 1..2-field layout (thorough: +1 reduced field) again on a map "
        "object (COB-ID rotating over unset / pre-defined / free 11-bit / 29-bit ids) that held one of four earlier layouts (64-bit, 1-bit, 24-bit mixed, 8 bytes) filled with FF and was cleared. "
        "non-trivial = distinct layouts containing a field that is not byte aligned or not a whole number of bytes")
ASSUMPTIONS = [
    "frame = little-endian integer, bit 0 of byte 0 first; signed fields are two's complement and sign-extended on read",
    "values written are within the field's range (low bits of the value are the value itself)",
    "REAL fields are written and compared as bit patterns (NaN payloads included)",
]

INT_W = (16, 24, 32, 40, 48, 56, 64)
TYPES = {"BOOLEAN": (8, False), "INTEGER8": (8, True), "UNSIGNED8": (8, False)}
for _w in INT_W:
    TYPES[f"INTEGER{_w}"] = (_w, True)
    TYPES[f"UNSIGNED{_w}"] = (_w, False)
TYPES["REAL32"] = (32, None)
TYPES["REAL64"] = (64, None)
FULL = [("BOOLEAN", 1), ("BOOLEAN", 8)] + [("UNSIGNED8", k) for k in range(1, 9)] + [("INTEGER8", k) for k in range(1, 9)] + \
       [(n, w) for n, (w, sg) in TYPES.items() if w > 8]
# objects mapped with fewer bits than they have (whole bytes and not)
FULL += [("INTEGER32", 24), ("UNSIGNED16", 8), ("UNSIGNED32", 16), ("INTEGER16", 12), ("UNSIGNED64", 40), ("INTEGER64", 56),
         ("UNSIGNED24", 16), ("INTEGER40", 8)]
REDUCED = [("BOOLEAN", 1), ("UNSIGNED8", 4), ("INTEGER8", 3), ("UNSIGNED8", 8), ("INTEGER16", 16)]
INITS = (0x00, 0xFF, 0xA5)
COBS = (None, 0x185, 0x6A5, 0x18FF0685, 0x7FF, 0x10000105, 0x205, 0x101, 0x57F, 0x1FFFFFFF, 0x080)
PRIORS = ([("UNSIGNED64", 64)], [("BOOLEAN", 1)], [("UNSIGNED8", 3), ("INTEGER16", 16), ("UNSIGNED8", 5)],
          [("UNSIGNED8", 8)] * 8)


def bounds(tier):
    return {"full_alphabet_layouts": "1..3 fields", "reduced_alphabet_layouts": "4..5 fields" if tier == "quick" else "4..8 fields (+ all 4-field layouts over the full alphabet, boundary values)",
            "values": "all 2^len for len<=8 in 1-2 field layouts" + (" and 3-field layouts" if tier == "thorough" else "") +
                      "; boundary {min,-1,0,1,max,alternating} otherwise"}


def cases(tier, seed):
    out = []
    for a in range(len(FULL)):
        out.append({"part": "full", "first": a, "depth": 3, "allvals3": tier == "thorough"})
    maxf = 5 if tier == "quick" else 8
    for a in range(len(REDUCED)):
        for b in range(len(REDUCED)):
            out.append({"part": "reduced", "first": [a, b], "maxf": maxf})
    # re-mapping histories on ONE map object: an earlier layout (filled with FF), clear(), then the layout under test
    for p in range(len(PRIORS)):
        for a in range(len(FULL)):
            out.append({"part": "remap", "prior": p, "first": a, "depth": 2 if tier == "quick" else 3})
    for d in range(4):
        out.append({"part": "failed-read", "dev": d})
    if tier == "thorough":
        for a in range(len(FULL)):
            for b in range(len(FULL)):
                if FULL[a][1] + FULL[b][1] <= 62:
                    out.append({"part": "full4", "first": [a, b]})
    k = seed % len(out)
    return out[k:] + out[:k]


_NODE = None


def node_and_map():
    global _NODE
    if _NODE is None:
        import canopen
        from canopen.objectdictionary import ODArray, ODRecord, ODVariable, ObjectDictionary, datatypes as dt
        od = ObjectDictionary()
        idx = {}
        for i, n in enumerate(TYPES):
            v = ODVariable("T_" + n, 0x2000 + i)
            v.data_type = getattr(dt, n)
            od.add_object(v)
            idx[n] = 0x2000 + i
        r = ODRecord("com", 0x1800)
        for s_, (n, t) in enumerate([("n", dt.UNSIGNED8), ("cob", dt.UNSIGNED32), ("tt", dt.UNSIGNED8)]):
            x = ODVariable(n, 0x1800, s_)
            x.data_type = t
            r.add_member(x)
        od.add_object(r)
        a = ODArray("map", 0x1A00)
        for s_ in range(9):
            x = ODVariable("m%d" % s_, 0x1A00, s_)
            x.data_type = dt.UNSIGNED8 if s_ == 0 else dt.UNSIGNED32
            a.add_member(x)
        od.add_object(a)
        node = canopen.RemoteNode(3, od)
        _NODE = (node, node.tpdo[1], idx)
    return _NODE


# ------------------------------------------------------------------ bit-field reference
def field_values(name, length, allvals):
    w, sg = TYPES[name]
    if sg is None:
        if w == 32:
            return [0x00000000, 0x3FC00000, 0xC0000000, 0x7F800000, 0x00000001, 0xFFFFFFFF, 0x55555555]
        return [0, 0x3FF8000000000000, 0xC000000000000000, 0x7FF0000000000000, 1, (1 << 64) - 1, 0x5555555555555555]
    if name == "BOOLEAN":
        return [0, 1]
    lo, hi = (-(1 << (length - 1)), (1 << (length - 1)) - 1) if sg else (0, (1 << length) - 1)
    if length <= 8 and allvals:
        return list(range(lo, hi + 1))
    alt = int("01" * 32, 2) & ((1 << length) - 1)
    if sg and alt > hi:
        alt -= 1 << length
    return sorted({lo, hi, 0, 1 if hi >= 1 else 0, -1 if sg else hi, alt, lo + 1 if lo + 1 <= hi else lo})


def to_bits(name, length, v):
    return int(v) & ((1 << length) - 1)


def object_bytes(name, length, bits):
    """What reading a field must return as the object's bytes: zero- or sign-extended to the object size."""
    w, sg = TYPES[name]
    if sg and bits >> (length - 1):
        bits -= 1 << length
        return bits.to_bytes(w // 8, "little", signed=True)
    return bits.to_bytes(w // 8, "little")


def py_value(name, length, bits):
    w, sg = TYPES[name]
    if sg is None:
        return struct.unpack("<f" if w == 32 else "<d", bits.to_bytes(w // 8, "little"))[0]
    if name == "BOOLEAN":
        return bool(bits)
    if sg and bits >> (length - 1):
        bits -= 1 << length
    return bits


def classify(name, length, off):
    w, sg = TYPES[name]
    if off % 8 == 0 and length % 8 == 0:
        return "aligned"
    return "inside-container" if (off % 8) + length <= w else "exceeds-container"


def sgn(name):
    w, sg = TYPES[name]
    return "float" if sg is None else ("signed" if sg else "unsigned")


def eval_layout(layout, st, case, allvals, seq=True, prior=None, prebuilt=None):
    from canopen.pdo.base import PdoMap
    if prebuilt is not None:
        return _check_map(prebuilt[0], prebuilt[1], layout, st, case, allvals, seq, None)
    node, m0, idx = node_and_map()
    # a fresh map object per evaluation (self-contained); histories on one object are the explicit "remap" part
    m = PdoMap(m0.pdo_node, m0.com_record, m0.map_array)
    # configuration that is orthogonal to the bit arithmetic rotates with the layout: the map's COB-ID (unset, pre-defined
    # set, free 11-bit ranges, 29-bit) and enabled flag
    rot = sum(ln * (k + 3) for k, (nm, ln) in enumerate(layout)) + len(layout)
    m.cob_id = COBS[rot % len(COBS)]
    m.enabled = bool(rot % 2)
    if prior is not None:
        for name, length in prior:
            m.add_variable(idx[name], 0, length)
        m.data[:] = b"\xff" * len(m.data)
        m.clear()
    vars_ = []
    for name, length in layout:
        vars_.append(m.add_variable(idx[name], 0, length))
    return _check_map(m, vars_, layout, st, case, allvals, seq, prior)


def _set_frame(m, frame, k):
    """The application puts frame content into the map: by assigning a new buffer, or by editing the buffer in place
    (slice assignment, byte by byte) - the style rotates."""
    style = int(k) % 3 if len(m.data) == len(frame) else 0
    if style == 0:
        m.data = bytearray(frame)
    elif style == 1:
        m.data[:] = frame
    else:
        for i_, b_ in enumerate(frame):
            m.data[i_] = b_


def _check_map(m, vars_, layout, st, case, allvals, seq, prior):
    off = 0
    offs = []
    for name, length in layout:
        offs.append(off)
        off += length
    total = off
    nbytes = (total + 7) // 8
    rc = dict(case, layout=[list(f) for f in layout])
    if prior is not None:
        rc["prior_layout"] = [list(f) for f in prior]
    if len(m.data) != nbytes:
        st.violation("C05:frame-length", rc, nbytes, len(m.data))
        return
    for fi, (name, length) in enumerate(layout):
        if vars_[fi].offset != offs[fi] or vars_[fi].length != length:
            st.violation("C05:offset", rc, (offs[fi], length), (vars_[fi].offset, vars_[fi].length))
            return
    nontriv = any(classify(n, ln, o) != "aligned" for (n, ln), o in zip(layout, offs))
    if nontriv:
        st.nontrivial_n += 1
    for fi, (name, length) in enumerate(layout):
        var, o = vars_[fi], offs[fi]
        cls = classify(name, length, o)
        w, sg = TYPES[name]
        mask = ((1 << length) - 1) << o
        for init in INITS:
            frame0 = bytes([init]) * nbytes
            f0 = int.from_bytes(frame0, "little")
            # ---- read
            st.evaluations += 1
            want_bits = (f0 >> o) & ((1 << length) - 1)
            _set_frame(m, frame0, fi + init)
            try:
                got = bytes(var.data)
                want = object_bytes(name, length, want_bits)
                if name == "BOOLEAN":
                    ok = var.raw == bool(want_bits)
                else:
                    ok = got == want
                if not ok:
                    st.violation(f"C05:read:{cls}:{sgn(name)}", dict(rc, field=fi, init=init), want.hex(), got.hex())
                elif sg is not None and name != "BOOLEAN" and var.raw != py_value(name, length, want_bits):
                    st.violation(f"C05:read-raw:{cls}:{sgn(name)}", dict(rc, field=fi, init=init),
                                 py_value(name, length, want_bits), var.raw)
                if bytes(m.data) != frame0:
                    st.violation(f"C05:read-changes-frame:{cls}", dict(rc, field=fi, init=init), frame0.hex(), bytes(m.data).hex())
            except Exception as e:  # noqa: BLE001
                st.violation(f"C05:read-raises:{type(e).__name__}:{cls}:{sgn(name)}", dict(rc, field=fi, init=init),
                             "the field value", repr(e)[:100])
            # ---- write
            for v in field_values(name, length, allvals):
                st.evaluations += 1
                _set_frame(m, frame0, fi + init + v)
                bits = to_bits(name, length, v)
                try:
                    if sg is None:
                        var.data = bits.to_bytes(w // 8, "little")
                    elif name == "BOOLEAN":
                        var.raw = bool(v)
                    else:
                        var.raw = v
                    wantf = (f0 & ~mask) | (bits << o)
                    gotf = int.from_bytes(m.data, "little")
                    if len(m.data) != nbytes:
                        st.violation(f"C05:write-changes-frame-length:{cls}", dict(rc, field=fi, init=init, v=v), nbytes, len(m.data))
                    elif gotf != wantf:
                        own = (gotf & mask) == (wantf & mask)
                        oth = (gotf & ~mask) == (wantf & ~mask)
                        st.violation(f"C05:write:{cls}:{sgn(name)}:{'own-ok' if own else 'own-wrong'}:"
                                     f"{'others-ok' if oth else 'others-clobbered'}", dict(rc, field=fi, init=init, v=v),
                                     f"{wantf:0{nbytes * 2}x}", f"{gotf:0{nbytes * 2}x}")
                    else:
                        # read back through the API
                        back = bytes(var.data)
                        if name != "BOOLEAN" and back != object_bytes(name, length, bits):
                            st.violation(f"C05:readback:{cls}:{sgn(name)}", dict(rc, field=fi, init=init, v=v),
                                         object_bytes(name, length, bits).hex(), back.hex())
                except Exception as e:  # noqa: BLE001
                    st.violation(f"C05:write-raises:{type(e).__name__}:{cls}:{sgn(name)}", dict(rc, field=fi, init=init, v=v),
                                 "field updated", repr(e)[:100])
    # ---- two writes to different fields, then read all
    if seq and len(layout) >= 2:
        for i, j in itertools.permutations(range(len(layout)), 2):
            if abs(i - j) != 1 and len(layout) > 3:
                continue
            (ni, li), (nj, lj) = layout[i], layout[j]
            vi = field_values(ni, li, False)[-1]
            vj = field_values(nj, lj, False)[0]
            st.evaluations += 1
            _set_frame(m, bytes([0xA5]) * nbytes, i + j)
            f = int.from_bytes(m.data, "little")
            try:
                for fi, v in ((i, vi), (j, vj)):
                    name, length = layout[fi]
                    w, sg = TYPES[name]
                    bits = to_bits(name, length, v)
                    if sg is None:
                        vars_[fi].data = bits.to_bytes(w // 8, "little")
                    elif name == "BOOLEAN":
                        vars_[fi].raw = bool(v)
                    else:
                        vars_[fi].raw = v
                    f = (f & ~(((1 << length) - 1) << offs[fi])) | (bits << offs[fi])
                gotf = int.from_bytes(m.data, "little")
                if gotf != f:
                    st.violation("C05:sequence:frame", dict(rc, seq=[i, j]), f"{f:x}", f"{gotf:x}")
                else:
                    for fk, (name, length) in enumerate(layout):
                        if name == "BOOLEAN":
                            continue
                        want = object_bytes(name, length, (f >> offs[fk]) & ((1 << length) - 1))
                        if bytes(vars_[fk].data) != want:
                            st.violation("C05:sequence:read", dict(rc, seq=[i, j], field=fk), want.hex(), bytes(vars_[fk].data).hex())
                            break
            except Exception as e:  # noqa: BLE001
                st.violation(f"C05:sequence:raises:{type(e).__name__}", dict(rc, seq=[i, j]), "two writes then reads", repr(e)[:100])
    st.outcome("layout ok")


def run_failed_read(case, st):
    """PdoMap.read() over SDO fails at mapping entry k (abort / no answer) on a map that held another layout before: what
    is left must be a self-consistent map (frame length = ceil(sum of lengths / 8), offsets consecutive) whose variables
    occupy exactly their bits."""
    import canopen
    _, _, idx = node_and_map()
    name_of = {v: k for k, v in idx.items()}
    dev_layouts = [[("UNSIGNED8", 3), ("INTEGER16", 16), ("UNSIGNED8", 5), ("BOOLEAN", 1), ("UNSIGNED32", 32)],
                   [("UNSIGNED8", 8)] * 8, [("INTEGER8", 4), ("INTEGER8", 4), ("UNSIGNED16", 16), ("UNSIGNED8", 1)],
                   [("UNSIGNED64", 64)]]
    priors = [None, [("UNSIGNED64", 64)], [("BOOLEAN", 1)], [("UNSIGNED8", 8), ("UNSIGNED16", 16), ("UNSIGNED8", 8)]]
    dl = dev_layouts[case["dev"]]
    for pi, prior in enumerate(priors):
        for k_fail in range(1, len(dl) + 2):
            for exc_kind in ("abort", "timeout"):
                import canopen.objectdictionary as odm
                node = canopen.RemoteNode(3, node_and_map()[0].object_dictionary)
                canopen.Network().add_node(node)          # read() subscribes the map
                m = node.tpdo[1]
                if prior:
                    for nm, ln in prior:
                        m.add_variable(idx[nm], 0, ln)
                    m.data[:] = b"\xff" * len(m.data)
                store = {(0x1800, 0): b"\x02", (0x1800, 1): struct.pack("<L", 0x185), (0x1800, 2): b"\xff", (0x1A00, 0): bytes([len(dl)])}
                for j, (nm, ln) in enumerate(dl):
                    store[(0x1A00, j + 1)] = struct.pack("<L", idx[nm] << 16 | ln)
                armed = {"on": True}

                def upload(i, s_, _store=store, _k=k_fail, _armed=armed, _e=exc_kind):
                    if _armed["on"] and i == 0x1A00 and s_ == _k:
                        _armed["on"] = False
                        raise canopen.SdoAbortedError(0x08000022) if _e == "abort" else canopen.SdoCommunicationError("No SDO response received")
                    return _store[(i, s_)]
                node.sdo.upload = upload
                st.evaluations += 1
                st.nontrivial_n += 1
                rc = dict(case, prior=pi, k_fail=k_fail, exc=exc_kind)
                failed = False
                try:
                    m.read()
                except (canopen.SdoAbortedError, canopen.SdoCommunicationError):
                    failed = True
                except Exception as e:  # noqa: BLE001
                    st.violation(f"C05:failed-read:raises:{type(e).__name__}", rc, "SDO error or success", repr(e)[:100])
                    continue
                if failed != (k_fail <= len(dl)):
                    st.violation("C05:failed-read:error-swallowed", rc, "the SDO error reaches the caller", f"failed={failed}")
                    continue
                actual = [(name_of.get(v.od.index, "?"), v.length) for v in m.map]
                if m.length != sum(ln for _, ln in actual):
                    st.violation("C05:failed-read:length-attribute", rc, sum(ln for _, ln in actual), m.length)
                    continue
                n0 = len(st.violations)
                if actual:
                    eval_layout(actual, st, dict(rc, after_failed_read=True), allvals=False, prebuilt=(m, list(m.map)))
                # (an empty map has no variables: the statement does not rule on the stale buffer it keeps)
                if len(st.violations) == n0:
                    st.outcome("failed-read consistent")


def run_case(case, st):
    if case.get("part") == "failed-read" and "layout" not in case:
        return run_failed_read(case, st)
    if case.get("part") == "failed-read":
        # replay of one configuration
        sub = dict(case)
        sub.pop("layout", None)
        sub.pop("after_failed_read", None)
        for k_ in ("field", "init", "v", "seq", "prior_layout"):
            sub.pop(k_, None)
        return run_failed_read(sub, st)
    if "layout" in case:
        eval_layout([tuple(f) for f in case["layout"]], st, {k: v for k, v in case.items() if k not in
                                                             ("layout", "field", "init", "v", "seq", "prior_layout")}, True,
                    prior=[tuple(f) for f in case["prior_layout"]] if case.get("prior_layout") else None)
        return
    n = 0
    if case["part"] == "remap":
        prior = PRIORS[case["prior"]]
        first = FULL[case["first"]]
        layouts = [[first]]
        for b in FULL:
            if first[1] + b[1] <= 64:
                layouts.append([first, b])
                if case["depth"] >= 3:
                    layouts += [[first, b, c] for c in REDUCED if first[1] + b[1] + c[1] <= 64]
        for lay in layouts:
            eval_layout(lay, st, case, allvals=False, prior=prior)
            st.nontrivial_n += 1
        st.count("remap_layouts", len(layouts))
        return
    if case["part"] == "full":
        first = FULL[case["first"]]
        layouts = [[first]]
        for b in FULL:
            if first[1] + b[1] <= 64:
                layouts.append([first, b])
                for c in FULL:
                    if first[1] + b[1] + c[1] <= 64:
                        layouts.append([first, b, c])
        for lay in layouts:
            eval_layout(lay, st, case, allvals=len(lay) <= 2 or case["allvals3"])
            n += 1
    elif case["part"] == "full4":
        a, b = FULL[case["first"][0]], FULL[case["first"][1]]
        for c in FULL:
            for d in FULL:
                if a[1] + b[1] + c[1] + d[1] <= 64:
                    eval_layout([a, b, c, d], st, case, allvals=False, seq=False)
                    n += 1
    else:
        a, b = case["first"]
        for k in range(4, case["maxf"] + 1):
            for rest in itertools.product(REDUCED, repeat=k - 2):
                lay = [REDUCED[a], REDUCED[b]] + list(rest)
                if sum(f[1] for f in lay) > 64:
                    continue
                eval_layout(lay, st, case, allvals=False)
                n += 1
    st.count("layouts", n)
    st.sample({"case": case, "layouts": n}, cap=3)


def finish(st, tier):
    if st.counters.get("layouts", 0) < 30000 and not st.violations:
        raise simenv.HarnessError("fewer layouts than the stated enumeration")
