"""C15 — a PDO value set by the producer is the value the consumer reads.

Explorer B (depth bounded): a RemoteNode on one Network and a LocalNode on another share a PDO
configuration over the SimBus; op sequences {set variable, transmit, remote request, reconfigure,
re-subscribe, foreign frame, add callback} with a reference model of frames / subscriptions /
field values stepped in lock-step.  Explorer C: wait_for_reception against a receiver thread
over all schedules up to the preemption bound.
"""
import itertools
import struct

from mc import kernel, simenv, vsched

ID = "C15"
LEVEL = "model_checking"
EXHAUSTIVE = True
RULE = ("BFS to depth d over events {write one of 3 values to a mapped variable on the producing side (RPDO1 from the "
        "master, TPDO1 with sub-byte + unaligned fields and colliding TPDO2 from the device), transmit of 4 maps, remote "
        "request on 3 maps, disable a map, change a consumer map's COB-ID (+subscribe), subscribe again, foreign frames on a "
        "mapped and an unmapped id, add_callback}; after each step bus frames, every consumer map's data / timestamp / "
        "callback count and every variable value are compared with the reference. Waits: waiter x receiver (0..2 frames) "
        "with <= P preemptions; a reader of two bit-field variables x receiver (1..2 frames) at line + after-call granularity. "
        "states de-duplicated on (map data, configuration, subscriptions, callbacks); non-trivial = "
        "states reached by >= 2 events, schedules with a preemption; two application threads writing two variables of one producing map that share no byte (4 layouts, line granularity): both values in the frame afterwards")
ASSUMPTIONS = [
    "a consumer map counts as subscribed to an id once subscribe() was called while it had that COB-ID; frames only update it while its current COB-ID equals the frame id",
    "waits: time-outs are long compared with scheduling delays",
]
OD = None
# (name, index, type, bits)
VARS = [("u8", 0x2000, "UNSIGNED8"), ("i16", 0x2001, "INTEGER16"), ("u32", 0x2002, "UNSIGNED32"), ("flag", 0x2003, "BOOLEAN"),
        ("i8", 0x2004, "INTEGER8")]
PDOS = {  # com index -> (cob default, entries (index, bits))
    0x1400: (0x205, [(0x2001, 16), (0x2000, 8)]),
    0x1401: (0x305, [(0x2002, 32)]),
    0x1800: (0x185, [(0x2000, 4), (0x2004, 4), (0x2003, 1), (0x2001, 16)]),
    0x1801: (0x185, [(0x2002, 32)]),
    0x1802: (0x40000385, [(0x2000, 8)]),
    0x1803: (0x18FEF105, [(0x2004, 8)]),          # 29-bit COB-ID
}


def od():
    global OD
    if OD is None:
        from canopen.objectdictionary import ODArray, ODRecord, ODVariable, ObjectDictionary, datatypes as dt
        OD = ObjectDictionary()
        for n, i, t in VARS:
            v = ODVariable(n, i)
            v.data_type = getattr(dt, t)
            v.pdo_mappable = True
            v.default = 0
            OD.add_object(v)
        v = ODVariable("hb", 0x1017)
        v.data_type = dt.UNSIGNED16
        v.default = 0
        OD.add_object(v)
        for base, (cob, entries) in PDOS.items():
            r = ODRecord("com%x" % base, base)
            for s, (n, t, d) in enumerate([("n", dt.UNSIGNED8, 2), ("cob", dt.UNSIGNED32, cob), ("tt", dt.UNSIGNED8, 255)]):
                x = ODVariable(n, base, s)
                x.data_type = t
                x.default = d
                r.add_member(x)
            OD.add_object(r)
            a = ODArray("map%x" % (base + 0x200), base + 0x200)
            for s in range(0, 9):
                x = ODVariable("m%d" % s, base + 0x200, s)
                x.data_type = dt.UNSIGNED8 if s == 0 else dt.UNSIGNED32
                x.default = len(entries) if s == 0 else ((entries[s - 1][0] << 16 | entries[s - 1][1]) if s <= len(entries) else 0)
                a.add_member(x)
            OD.add_object(a)
    return OD


def bounds(tier):
    return {"bfs_depth": 3 if tier == "quick" else 5, "events": len(EVENTS), "preemption_bound": 2 if tier == "quick" else 3}


# map keys: (side, kind, no) ; producers: master rpdo1/2, device tpdo1/2/3
SETS = [("m", "rpdo", 1, "i16", v) for v in (-32768, -1, 0x1234)] + [("m", "rpdo", 1, "u8", v) for v in (0, 255)] + \
       [("d", "tpdo", 1, "u8", v) for v in (0, 15)] + [("d", "tpdo", 1, "i8", v) for v in (-8, 7)] + \
       [("d", "tpdo", 1, "flag", v) for v in (False, True)] + [("d", "tpdo", 1, "i16", v) for v in (-32768, 0x1234)] + \
       [("d", "tpdo", 2, "u32", v) for v in (0xDEADBEEF,)] + [("d", "tpdo", 4, "i8", -5)]
EVENTS = [("set",) + s for s in SETS] + \
         [("tx", "m", "rpdo", 1), ("tx", "d", "tpdo", 1), ("tx", "d", "tpdo", 2), ("tx", "d", "tpdo", 3), ("tx", "d", "tpdo", 4)] + \
         [("rtr", "m", "tpdo", 1), ("rtr", "m", "tpdo", 2), ("rtr", "m", "tpdo", 3), ("rtr", "m", "tpdo", 4)] + \
         [("disable", "m", "tpdo", 2), ("recob", "m", "tpdo", 2, 0x186), ("recob", "d", "rpdo", 1, 0x305),
          ("resub", "m", "tpdo", 1), ("resub", "d", "rpdo", 1),
          ("foreign", 0x185, b"\xff\xee\xdd\xcc"), ("foreign", 0x7F0, b"\x01"), ("cb", "m", "tpdo", 1), ("cb", "d", "rpdo", 1)]
WIDTH = {"u8": (8, False), "i16": (16, True), "u32": (32, False), "flag": (8, False), "i8": (8, True)}
NAME_OF = {i: n for n, i, t in VARS}


class RefMap:
    def __init__(self, base):
        cob, entries = PDOS[base]
        self.cob = cob & 0x1FFFFFFF
        self.enabled = not cob & 0x80000000
        self.rtr = not cob & 0x40000000
        self.entries = entries
        self.bits = sum(b for _, b in entries)
        self.data = bytes((self.bits + 7) // 8)
        self.subscribed = {self.cob} if self.enabled else set()
        self.sub_count = {self.cob: 1} if self.enabled else {}
        self.timestamp = None
        self.ncb = 0
        self.cb_calls = 0

    def field(self, name):
        off = 0
        for idx, b in self.entries:
            if NAME_OF[idx] == name:
                return off, b
            off += b
        raise KeyError(name)

    def write(self, name, value):
        off, b = self.field(name)
        f = int.from_bytes(self.data, "little")
        mask = ((1 << b) - 1) << off
        f = (f & ~mask) | ((int(value) & ((1 << b) - 1)) << off)
        self.data = f.to_bytes(len(self.data), "little")

    def read(self, name, data=None):
        off, b = self.field(name)
        f = int.from_bytes(self.data if data is None else data, "little")
        v = (f >> off) & ((1 << b) - 1)
        if name == "flag":
            return bool(v)
        if WIDTH[name][1] and v >> (b - 1):
            v -= 1 << b
        return v


BASE = {("rpdo", 1): 0x1400, ("rpdo", 2): 0x1401, ("tpdo", 1): 0x1800, ("tpdo", 2): 0x1801, ("tpdo", 3): 0x1802,
        ("tpdo", 4): 0x1803}


class World:
    def __init__(self):
        import canopen
        simenv.new_world()
        self.bus = simenv.SimBus("inline")
        self.bus.reuse_rx = True         # the interface re-uses its receive buffer
        self.A, self.B = canopen.Network(), canopen.Network()
        self.bus.attach(self.A, "m")
        self.bus.attach(self.B, "d")
        self.master = self.A.add_node(5, od())
        self.dev = self.B.create_node(5, od())
        self.master.pdo.read(from_od=True)
        self.dev.pdo.read(from_od=True)
        self.ref = {(side, kind, no): RefMap(BASE[(kind, no)]) for side in "md" for (kind, no) in BASE}
        self.cb_log = {}

    def real(self, key):
        side, kind, no = key
        node = self.master if side == "m" else self.dev
        return getattr(node, kind)[no]

    def canon(self):
        out = []
        for key in sorted(self.ref):
            m = self.real(key)
            net = self.A if key[0] == "m" else self.B
            subs = tuple(sorted((cid, sum(1 for c in cbs if getattr(c, "__self__", None) is m))
                                for cid, cbs in net.subscribers.items() if any(getattr(c, "__self__", None) is m for c in cbs)))
            out.append((key, subs, len(m.callbacks), m.timestamp is None, m.period is None, m._task is None,
                        kernel.scalar_state(m, exclude=("timestamp", "period"))))
        return tuple(out)

    # --- delivery of one frame to the reference
    def ref_deliver(self, src_side, cid, data, ts):
        for key, r in self.ref.items():
            if key[0] == src_side:
                continue
            if cid in r.subscribed and r.cob == cid:
                r.data = bytes(data)
                r.timestamp = ts
                r.cb_calls += r.ncb


def apply(w, e):
    v = []
    k = e[0]
    n0 = len(w.bus.log)
    before_cb = {key: len(lst) for key, lst in w.cb_log.items()}
    ts_before = simenv.W.now
    try:
        if k == "set":
            _, side, kind, no, name, val = e
            w.real((side, kind, no))[name].raw = val
            w.ref[(side, kind, no)].write(name, val)
        elif k == "tx":
            key = e[1:4]
            w.real(key).transmit()
            r = w.ref[key]
            frames = w.bus.log[n0:]
            if frames != [(key[0], r.cob, r.data, False, r.cob > 0x7FF)]:
                v.append(("C15:transmit-frame", [(key[0], hex(r.cob), r.data.hex())], [(f[0], hex(f[1]), f[2].hex(), f[3]) for f in frames]))
            w.ref_deliver(key[0], r.cob, r.data, ts_before)
        elif k == "rtr":
            key = e[1:4]
            w.real(key).remote_request()
            r = w.ref[key]
            frames = w.bus.log[n0:]
            want = [(key[0], r.cob, b"", True, r.cob > 0x7FF)] if (r.enabled and r.rtr) else []
            if frames != want:
                v.append((f"C15:remote-request:{'missing' if want else 'sent-although-not-allowed'}",
                          [(f[0], hex(f[1]), f[3]) for f in want], [(f[0], hex(f[1]), f[2].hex(), f[3]) for f in frames]))
        elif k == "disable":
            key = e[1:4]
            w.real(key).enabled = False
            w.ref[key].enabled = False
        elif k == "recob":
            key, cob = e[1:4], e[4]
            m = w.real(key)
            m.cob_id = cob
            m.subscribe()
            r = w.ref[key]
            r.cob = cob
            if r.enabled:
                r.subscribed.add(cob)
        elif k == "resub":
            key = e[1:4]
            w.real(key).subscribe()
            r = w.ref[key]
            if r.enabled:
                r.subscribed.add(r.cob)
        elif k == "foreign":
            ts = 4242.0 + n0
            w.bus.inject(e[1], e[2], timestamp=ts)
            for side in "md":
                pass
            for key, r in w.ref.items():
                if e[1] in r.subscribed and r.cob == e[1]:
                    r.data = bytes(e[2])
                    r.timestamp = ts
                    r.cb_calls += r.ncb
        elif k == "cb":
            key = e[1:4]
            lst = w.cb_log.setdefault(key, [])
            w.real(key).add_callback(lambda m, _l=lst: _l.append(bytes(m.data)))
            w.ref[key].ncb += 1
    except Exception as ex:  # noqa: BLE001
        v.append((f"C15:raises:{type(ex).__name__}:{k}", "operation succeeds", repr(ex)[:120]))
        return v
    # compare every map with its reference
    for key, r in w.ref.items():
        m = w.real(key)
        if bytes(m.data) != r.data:
            v.append((f"C15:data:{'consumer' if k in ('tx', 'foreign') else 'producer'}:{key[1]}{key[2]}",
                      (key, r.data.hex()), (key, bytes(m.data).hex())))
            r.data = bytes(m.data)
            continue
        if k in ("tx", "foreign") and r.timestamp is not None and m.timestamp != r.timestamp:
            v.append(("C15:timestamp", (key, r.timestamp), (key, m.timestamp)))
            r.timestamp = m.timestamp
        calls = len(w.cb_log.get(key, []))
        if calls != r.cb_calls:
            v.append((f"C15:callbacks:{'too-many' if calls > r.cb_calls else 'missing'}", (key, r.cb_calls), (key, calls)))
            r.cb_calls = calls
        # variable values through the API
        for idx, b in r.entries:
            name = NAME_OF[idx]
            try:
                got = m[name].raw
            except Exception as ex:  # noqa: BLE001
                v.append((f"C15:read-raises:{type(ex).__name__}", (key, name), repr(ex)[:80]))
                continue
            if got != r.read(name):
                v.append(("C15:variable-value", (key, name, r.read(name)), (key, name, got)))
    return v


def cases(tier, seed):
    out = []
    P = 2 if tier == "quick" else 3
    # frames delivered by the receive thread: positive = a frame of this map (data byte), 0 = a frame with another CAN id
    # that the map is (still) subscribed to, e.g. its COB-ID before a reconfiguration
    for frames in ([], [1], [1, 2], [0], [0, 1], [1, 0]):
        for pre in (False, True):
            out.append({"part": "wait", "frames": frames, "pre_received": pre, "P": P})
    for nw in ((2,) if tier == "quick" else (2, 3)):
        for lo, hi in ((0, 4), (4, 8), (8, 12), (12, 18), (18, 26), (26, 40), (40, 100000)):
            out.append({"part": "wait-many", "waiters": nw, "P": 2 if tier == "quick" else (3 if nw == 2 else 2), "range": [lo, hi]})
    for nframes in (1, 2):
        for reads in (1, 2):
            for warm in (False, True):
                for first in ("reader", "receiver"):
                    out.append({"part": "read-race", "frames": nframes, "reads": reads, "warm": warm, "first": first,
                                "P": 1 if tier == "quick" else 2})
    for lay in range(len(WRITE_LAYOUTS)):
        for first in (0, 1):
            out.append({"part": "write-race", "layout": lay, "first": first, "P": 2 if tier == "quick" else 3})
    from checks import c05
    for a in range(len(c05.FULL)):
        out.append({"part": "layouts", "first": a})
    # the same variable reached through every access path, before and after the PDO is re-mapped (the variable moves)
    for pa in range(len(PATHS)):
        out.append({"part": "access-paths", "before": pa})
    return out


def run_main(tier, seed, jobs, st):
    depth = 3 if tier == "quick" else 5
    res = kernel.bfs_parallel(World, apply, None, lambda w: w.canon(), jobs=jobs, static_events=EVENTS,
                              terminal=lambda w, v: bool(v), max_states=400000, max_depth=depth)
    st.states += res["states"]
    st.transitions += res["transitions"]
    st.traces += res["transitions"]
    st.evaluations += res["transitions"]
    st.nontrivial_n += max(res["states"] - 1 - len(EVENTS), 0)
    seen = set()
    for h, (sig, exp, obs) in res["verdicts"]:
        if sig in seen:
            continue
        seen.add(sig)
        st.violation(sig, {"part": "bfs", "hist": [_j(e) for e in h]}, exp, obs)
    st.outcome(f"bfs depth {res['depth']}")
    st.sample({"bfs": "producer/consumer", "states": res["states"], "transitions": res["transitions"], "depth": res["depth"]})
    if res["capped"]:
        st.caps.append("state cap reached")


def _j(e):
    return [x.hex() if isinstance(x, bytes) else x for x in e]


def _unj(e):
    e = list(e)
    if e[0] == "foreign":
        e[2] = bytes.fromhex(e[2])
    return tuple(e)


def run_layouts(case, st):
    """Producer -> bus -> consumer for every 1- and 2-field layout of C05's full field alphabet (boundary values)."""
    import canopen
    from checks import c05
    simenv.new_world()
    bus = simenv.SimBus("inline")
    A, B = canopen.Network(), canopen.Network()
    bus.attach(A, "m")
    bus.attach(B, "d")
    from canopen.objectdictionary import ODArray, ODRecord, ODVariable, ObjectDictionary, datatypes as dt
    o = ObjectDictionary()
    idx = {}
    for i, n in enumerate(c05.TYPES):
        v = ODVariable("T_" + n, 0x2000 + i)
        v.data_type = getattr(dt, n)
        o.add_object(v)
        idx[n] = 0x2000 + i
    r = ODRecord("com", 0x1400)
    for s_, (n, t) in enumerate([("n", dt.UNSIGNED8), ("cob", dt.UNSIGNED32), ("tt", dt.UNSIGNED8)]):
        x = ODVariable(n, 0x1400, s_)
        x.data_type = t
        r.add_member(x)
    o.add_object(r)
    a = ODArray("map", 0x1600)
    for s_ in range(9):
        x = ODVariable("m%d" % s_, 0x1600, s_)
        x.data_type = dt.UNSIGNED8 if s_ == 0 else dt.UNSIGNED32
        a.add_member(x)
    o.add_object(a)
    v = ODVariable("hb", 0x1017)
    v.data_type = dt.UNSIGNED16
    v.default = 0
    o.add_object(v)
    master, dev = A.add_node(5, o), B.create_node(5, o)
    pm, cm = master.rpdo[1], dev.rpdo[1]
    for m in (pm, cm):
        m.cob_id, m.enabled = 0x205, True
    cm.subscribe()
    first = c05.FULL[case["first"]]
    layouts = [[first]] + [[first, b] for b in c05.FULL if first[1] + b[1] <= 64]
    for lay in layouts:
        for m in (pm, cm):
            m.clear()
            for name, length in lay:
                m.add_variable(idx[name], 0, length)
        for fi, (name, length) in enumerate(lay):
            w, sg = c05.TYPES[name]
            for val in c05.field_values(name, length, False):
                st.evaluations += 1
                rc = dict(case, layout=[list(f) for f in lay], field=fi, v=val)
                try:
                    if sg is None:
                        pm[fi].data = c05.to_bits(name, length, val).to_bytes(w // 8, "little")
                    elif name == "BOOLEAN":
                        pm[fi].raw = bool(val)
                    else:
                        pm[fi].raw = val
                    ts = simenv.W.now
                    pm.transmit()
                    if bytes(cm.data) != bytes(pm.data) or cm.timestamp != ts:
                        st.violation("C15:layout:frame-or-timestamp", rc, (bytes(pm.data).hex(), ts), (bytes(cm.data).hex(), cm.timestamp))
                        continue
                    for fk in range(len(lay)):
                        if bytes(cm[fk].data) != bytes(pm[fk].data):
                            st.violation("C15:layout:consumer-value", rc, bytes(pm[fk].data).hex(), bytes(cm[fk].data).hex())
                            break
                    want = c05.object_bytes(name, length, c05.to_bits(name, length, val))
                    if name != "BOOLEAN" and bytes(cm[fi].data) != want:
                        st.violation("C15:layout:written-value", rc, want.hex(), bytes(cm[fi].data).hex())
                except Exception as e:  # noqa: BLE001
                    st.violation(f"C15:layout:raises:{type(e).__name__}", rc, "value transferred", repr(e)[:100])
        st.nontrivial_n += 1
    st.outcome("layouts ok")
    st.sample({"layouts first field": list(first), "layouts": len(layouts)}, cap=2)


def run_read_race(case, st):
    """The application thread reads bit-field variables of a consumer map while the receive thread delivers frames
    (line-level + after-call scheduling points inside canopen): each read returns the field of a frame that was current
    at some moment of the read, and once both threads are done a read returns the last frame's field."""
    import os
    import canopen
    root = os.path.dirname(os.path.abspath(canopen.__file__))
    FR = [0x00, 0xA5, 0x3C]          # initial content, then the delivered frames (low nibble 0, 5, C; high nibble 0, A->-6, 3)

    def fields(b):
        hi = b >> 4
        return (b & 0xF, hi - 16 if hi & 8 else hi)

    def harness(s):
        node = canopen.RemoteNode(5, od())
        m = node.tpdo[1]
        m.cob_id = 0x185
        m.clear()
        lo = m.add_variable(0x2000, 0, 4)
        hi = m.add_variable(0x2004, 0, 4)
        m.on_message(0x185, bytearray([FR[0]]), 5.0)
        if case["warm"]:
            lo.raw, hi.raw                               # history: the variables have been read before

        def reader():
            got = []
            for k in range(case["reads"]):
                s.note(("read-start", k))
                v = (lo.raw, hi.raw)
                s.note(("read-end", k))
                got.append(v)
            return got

        def receiver():
            for i in range(1, case["frames"] + 1):
                s.note(("deliver-start", i))
                m.on_message(0x185, bytearray([FR[i]]), 10.0 + i)
                s.note(("deliver-end", i))
        if case["first"] == "reader":
            rt = s.spawn(reader, "reader")
            s.spawn(receiver, "receiver")
        else:
            s.spawn(receiver, "receiver")
            rt = s.spawn(reader, "reader")

        def result():
            final = None
            if not s.deadlock and rt.exc is None:
                final = (lo.raw, hi.raw)
            return (rt.res if rt.exc is None else ("EXC", repr(rt.exc)[:80]), final, tuple(s.events), s.deadlock)
        return result

    def on_exec(s, out):
        got, final, events, deadlock = out
        st.evaluations += 1
        st.traces += 1
        st.transitions += len(s.trace)
        if s.pre:
            st.nontrivial_n += 1
        rc = dict(case, schedule=[t[1] for t in s.trace])
        if deadlock:
            st.violation("C15:read-race:deadlock", rc, "no deadlock", deadlock)
            return
        if got and got[0] == "EXC":
            st.violation("C15:read-race:exception", rc, "a value", got[1])
            return
        last = fields(FR[case["frames"]])
        if final != last:
            st.violation("C15:read-race:stale-after-quiescence", rc, f"the last frame's fields {last}", f"{final} (reads {got})")
            return
        for k, v in enumerate(got):
            a = events.index(("read-start", k))
            b = events.index(("read-end", k))
            done_before = [e[1] for e in events[:a] if e[0] == "deliver-end"]
            started_before_end = [e[1] for e in events[:b] if e[0] == "deliver-start"]
            lo_i = max(done_before, default=0)
            hi_i = max(started_before_end, default=0)
            # each field comes from one of the frames current during the read (the two fields are read one after the other)
            ok = all(any(v[f] == fields(FR[i])[f] for i in range(lo_i, hi_i + 1)) for f in (0, 1))
            if not ok:
                st.violation("C15:read-race:value-of-no-current-frame", rc,
                             f"fields of frames {list(range(lo_i, hi_i + 1))} of {[fields(x) for x in FR]}", f"read {k} = {v}")
                return
        st.outcome(f"read-race reads={got}")

    if "schedule" in case:
        on_exec(*vsched.replay(harness, case, line_root=root, horizon=20000, after_calls=True))
        return
    stats = vsched.explore_schedules(harness, case["P"], on_exec=on_exec, line_root=root, horizon=20000, after_calls=True)
    st.states += stats["executions"]
    st.count("read_race_schedules", stats["executions"])
    st.sample({"read-race": case, "schedules": stats["executions"], "outcomes": len(stats["outcomes"])}, cap=8)


# Two application threads write two variables of one producing map that share no byte of the frame.
# (entries (index, bits)), (entry no, value) of writer A, of writer B, initial frame, expected frame
WRITE_LAYOUTS = [
    ([(0x2000, 4), (0x2004, 4), (0x2002, 32)], (0, 0xC), (2, 0xDEADBEEF), "5a11223344", "5cefbeadde"),
    ([(0x2000, 4), (0x2004, 4), (0x2001, 16), (0x2003, 1)], (1, -3), (3, True), "5a112200", "da112201"),
    ([(0x2001, 16), (0x2000, 4), (0x2004, 4)], (0, -2), (2, 7), "11225a", "feff7a"),
    ([(0x2003, 1), (0x2000, 8), (0x2001, 16), (0x2004, 4)], (0, True), (3, -8), "00ffff01", "01ffff11"),
]


def run_write_race(case, st):
    """Each writer changes exactly its own field: with fields in different bytes of the frame, both values are in the
    frame once both threads are done, whatever the interleaving (line-level scheduling points inside canopen)."""
    import os
    import canopen
    root = os.path.dirname(os.path.abspath(canopen.__file__))
    entries, wa, wb, init, want = WRITE_LAYOUTS[case["layout"]]

    def harness(s):
        node = canopen.RemoteNode(5, od())
        m = node.rpdo[1]
        m.clear()
        vs = [m.add_variable(i, 0, n) for i, n in entries]
        m.data[:] = bytes.fromhex(init)

        def writer(k, v):
            def run():
                vs[k].raw = v
            return run
        order = [("A", wa), ("B", wb)]
        if case["first"]:
            order.reverse()
        ts = [s.spawn(writer(*w), n) for n, w in order]

        def result():
            exc = [repr(t.exc)[:80] for t in ts if t.exc is not None]
            return (bytes(m.data).hex(), exc, s.deadlock)
        return result

    def on_exec(s, out):
        data, exc, deadlock = out
        st.evaluations += 1
        st.traces += 1
        st.transitions += len(s.trace)
        if s.pre:
            st.nontrivial_n += 1
        rc = dict(case, schedule=[t[1] for t in s.trace])
        if deadlock or exc:
            st.violation("C15:write-race:exception", rc, "both writes complete", f"{exc} deadlock={deadlock}")
        elif data != want:
            st.violation("C15:write-race:lost-write", rc, want, data)
        else:
            st.outcome("write-race ok")

    if "schedule" in case:
        on_exec(*vsched.replay(harness, case, line_root=root, horizon=20000))
        return
    stats = vsched.explore_schedules(harness, case["P"], on_exec=on_exec, line_root=root, horizon=20000)
    st.states += stats["executions"]
    st.count("write_race_schedules", stats["executions"])
    st.sample({"write-race": case, "schedules": stats["executions"]}, cap=8)


# (node.pdo[0x1A00] / node.pdo[0x1600] are not used: their keys are swapped between rx and tx, which the suite enshrines)
PATHS = ("map[name]", "map[position]", "map[index]", "tpdo[name]", "tpdo[index]", "pdo[name]", "pdo[index]", "tpdo[1][name]")


def _via(node, path, name, index, position):
    m = node.tpdo[1]
    return {"map[name]": lambda: m[name], "map[position]": lambda: m[position], "map[index]": lambda: m[index],
            "tpdo[name]": lambda: node.tpdo[name], "tpdo[index]": lambda: node.tpdo[index],
            "pdo[name]": lambda: node.pdo[name], "pdo[index]": lambda: node.pdo[index],
            "tpdo[1][name]": lambda: node.tpdo[1][name]}[path]()


def run_access_paths(case, st):
    """Producer (LocalNode TPDO1) and consumer (RemoteNode TPDO1) share a mapping; the value written by the producer
    through access path A is read by the consumer through every path; then both sides re-map the PDO so that the
    variable moves to another bit offset and the same is done again, with every path on either side."""
    import canopen
    layouts = ([("u32", 0x2002)], [("u8", 0x2000), ("u32", 0x2002)], [("i16", 0x2001), ("u8", 0x2000), ("u32", 0x2002)], [("u32", 0x2002), ("u8", 0x2000)])
    before = PATHS[case["before"]]
    for l1, l2 in itertools.permutations(range(len(layouts)), 2):
        for after in ([case["after"]] if "after" in case else PATHS):
            w = World()
            prod, cons = w.dev, w.master
            for node in (prod, cons):
                # a name / index looked up on the node finds the first map that holds it: only TPDO1 maps anything here
                for coll in (node.rpdo, node.tpdo):
                    for mm in coll.values():
                        mm.clear()
            st.evaluations += 1
            st.nontrivial_n += 1
            rc = {"part": "access-paths", "before": case["before"], "after": after, "layouts": [l1, l2]}
            try:
                for step, (li, path, val) in enumerate(((l1, before, 0x11223344), (l2, after, 0x44556677))):
                    lay = layouts[li]
                    for node in (prod, cons):
                        m = node.tpdo[1]
                        m.clear()
                        for nm, ix in lay:
                            m.add_variable(ix)
                        m.cob_id, m.enabled = 0x185, True
                    cons.tpdo[1].subscribe()
                    pos = [nm for nm, ix in lay].index("u32")
                    _via(prod, path, "u32", 0x2002, pos).raw = val
                    prod.tpdo[1].transmit()
                    for rp in PATHS:
                        got = _via(cons, rp, "u32", 0x2002, pos).raw
                        if got != val:
                            st.violation(f"C15:access-path:{'after-remap' if step else 'first-mapping'}:written-via-{path.split('[')[0]}:read-via-{rp.split('[')[0]}",
                                         dict(rc, read_path=rp), hex(val), hex(got) if isinstance(got, int) else repr(got))
                            raise StopIteration
                st.outcome("access paths ok")
            except StopIteration:
                pass
            except Exception as e:  # noqa: BLE001
                st.violation(f"C15:access-path:raises:{type(e).__name__}", rc, "value transferred", repr(e)[:120])


def run_wait_many(case, st):
    """Several application threads wait for the next reception of the same map; one frame arrives: every waiter that was
    waiting when the delivery began gets its timestamp."""
    import canopen
    import canopen.pdo.base as pb
    vsched.interpose(pb.PdoMap, {"is_received", "timestamp", "data", "period", "_receptions"})
    TIMEOUT = 1.0
    nw = case["waiters"]

    def harness(s):
        node = canopen.RemoteNode(5, od())
        m = node.tpdo[1]
        m.cob_id = 0x185
        m.clear()
        m.add_variable(0x2000)
        t0 = simenv.W.now

        def waiter():
            r = m.wait_for_reception(TIMEOUT)
            return (r, round(simenv.W.now - t0, 3))

        def receiver():
            s.note(("deliver", 1))
            m.on_message(0x185, bytearray([1]), 11.0)
        ws = [s.spawn(waiter, "waiter%d" % i) for i in range(nw)]
        s.spawn(receiver, "receiver")
        return lambda: ([w.res if w.exc is None else ("EXC", repr(w.exc)[:60]) for w in ws], tuple(s.events), s.deadlock)

    def on_exec(s, out):
        res, events, deadlock = out
        st.evaluations += 1
        st.traces += 1
        st.transitions += len(s.trace)
        if s.pre:
            st.nontrivial_n += 1
        rc = dict(case, schedule=[t[1] for t in s.trace])
        if deadlock:
            st.violation("C15:wait-many:deadlock", rc, "no deadlock", deadlock)
            return
        dl = next((i for i, e in enumerate(events) if e[0] == "deliver"), None)
        for wi, r in enumerate(res):
            if r[0] == "EXC":
                st.violation("C15:wait-many:exception", rc, "timestamp or None", r[1])
                return
            entered = next((i for i, e in enumerate(events) if e[0] == "wait-enter" and e[1] == "waiter%d" % wi), None)
            ts, t = r
            if entered is not None and dl is not None and entered < dl:
                if ts != 11.0 or t >= TIMEOUT:
                    st.violation("C15:wait-many:waiter-misses-the-frame", rc, "every waiter that was waiting gets 11.0",
                                 f"waiter {wi}: {r}; all: {res}")
                    return
            elif ts is None and t < TIMEOUT - 0.01:
                st.violation("C15:wait-many:gives-up-before-the-timeout", rc, "None only at the time-out", f"waiter {wi}: {r}")
                return
        st.outcome("wait-many ok")

    if "schedule" in case:
        on_exec(*vsched.replay(harness, case))
        return
    stats = vsched.explore_schedules(harness, case["P"], on_exec=on_exec, first_dev_range=tuple(case["range"]))
    st.states += stats["executions"]
    st.count("schedules", stats["executions"])
    st.count("schedules_with_preemption", stats["with_preemption"])


def run_case(case, st):
    if case["part"] == "wait-many":
        return run_wait_many(case, st)
    if case["part"] == "access-paths":
        return run_access_paths(case, st)
    if case["part"] == "read-race":
        return run_read_race(case, st)
    if case["part"] == "write-race":
        return run_write_race(case, st)
    if case["part"] == "layouts":
        return run_layouts(case, st)
    if case["part"] == "bfs":
        w = World()
        v = []
        for e in case["hist"]:
            v = apply(w, _unj(e))
        for sig, exp, obs in v:
            st.violation(sig, case, exp, obs)
        return
    run_wait(case, st)


def run_wait(case, st):
    import canopen
    import canopen.pdo.base as pb
    vsched.interpose(pb.PdoMap, {"is_received", "timestamp", "data", "period", "_receptions"})
    frames, P = case["frames"], case["P"]
    TIMEOUT = 1.0

    class NotingCondition(simenv.VCondition):
        def __enter__(self):
            r = super().__enter__()
            s = simenv.W.sched
            if s is not None and s.controlled():
                s.note(("cs-enter", s.cur.name))
            return r

    def harness(s):
        node = canopen.RemoteNode(5, od())
        m = node.tpdo[1]
        m.cob_id = 0x185
        m.clear()
        m.add_variable(0x2000)
        m.receive_condition = NotingCondition()
        if case["pre_received"]:
            m.on_message(0x185, bytearray(b"\x99"), 5.0)      # history: a frame was received before anybody waits
        t0 = simenv.W.now

        def waiter():
            r = m.wait_for_reception(TIMEOUT)
            return (r, bytes(m.data), round(simenv.W.now - t0, 3))

        def receiver():
            for i in frames:
                s.note(("deliver", i))
                if i == 0:
                    m.on_message(0x184, bytearray([0xEE]), 99.0)     # not this map's COB-ID: must be ignored
                else:
                    m.on_message(0x185, bytearray([i]), 10.0 + i)
        wt = s.spawn(waiter, "waiter")
        if frames:
            s.spawn(receiver, "receiver")
        return lambda: (wt.res if wt.exc is None else ("EXC", repr(wt.exc)[:80], 0), tuple(s.events), s.deadlock)

    def on_exec(s, out):
        res, events, deadlock = out
        st.evaluations += 1
        st.traces += 1
        st.transitions += len(s.trace)
        if s.pre:
            st.nontrivial_n += 1
        rc = dict(case, schedule=[t[1] for t in s.trace])
        if deadlock:
            st.violation("C15:wait:deadlock", rc, "no deadlock", deadlock)
            return
        if res[0] == "EXC":
            st.violation("C15:wait:exception", rc, "timestamp or None", res[1])
            return
        first_wait = next((i for i, e in enumerate(events) if e[0] == "wait-enter"), None)
        # a matching frame counts as "during the wait" when its delivery started after the reader began to wait
        during = [10.0 + e[1] for i, e in enumerate(events) if e[0] == "deliver" and e[1] != 0 and first_wait is not None and i > first_wait]
        before = [10.0 + e[1] for i, e in enumerate(events) if e[0] == "deliver" and e[1] != 0 and (first_wait is None or i < first_wait)]
        ts, data, t = res
        if ts is None and t < TIMEOUT - 0.01:
            st.violation("C15:wait:gives-up-before-the-timeout", rc, f"None only at the time-out ({TIMEOUT})", f"None at t={t} events={events}"[:300])
            return
        if before and not during and ts is not None and ts in before and t < TIMEOUT:
            # the delivery started before the reader waited but its critical section may still have followed: allowed
            st.outcome("frame straddling the start of the wait")
            return
        st.outcome(f"during={len(during)} -> {'timestamp' if ts is not None else 'None'}")
        if during:
            if ts not in during + before[-1:]:
                st.violation("C15:wait:wrong-or-no-timestamp", rc, f"one of {during}", f"{ts} data={data.hex()} t={t}")
            elif t >= TIMEOUT:
                st.violation("C15:wait:lost-wakeup", rc, "returns when the frame is delivered", f"returned at t={t}")
        elif ts is not None:
            st.violation("C15:wait:spurious", rc, "None at the time-out", f"{ts} at t={t}")
        elif abs(t - TIMEOUT) > 0.01:
            st.violation("C15:wait:timeout-time", rc, TIMEOUT, t)

    if "schedule" in case:
        on_exec(*vsched.replay(harness, case))
        return
    stats = vsched.explore_with_crosscheck(st, harness, P, on_exec, case)
    st.states += stats["executions"]
    st.count("schedules", stats["executions"])
    st.count("schedules_with_preemption", stats["with_preemption"])
    st.sample({"wait": case, "schedules": stats["executions"]}, cap=6)


def finish(st, tier):
    if st.states < 500 and not st.violations:
        raise simenv.HarnessError("fewer states than expected")
    if not st.counters.get("schedules_with_preemption") and not st.violations:
        raise simenv.HarnessError("no schedule with a preemption explored")
