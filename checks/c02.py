"""C02 — the SDO server serves and stores object values exactly, in conformant CiA 301 frames.

(a) value matrix: data type x value source {default, ParameterValue, earlier download, read
    callback} x precedence pairs x lengths, uploaded and downloaded by the strict reference
    client (mc/refs/sdo_client.py) against the real LocalNode/SdoServer.
(b) explicit-state BFS over request-frame histories from a freshly created node; the
    reference judgement (mc/refs/sdo_refmodel.py) is stepped in lock-step; every newly reached
    state is probed with complete valid transfers (differential oracle).
"""
import struct

from mc import kernel, simenv
from mc.refs import codec, sdo_client
from mc.sdoharness import ServerSim

ID = "C02"
LEVEL = "model_checking"
RULE = ("(b) BFS over histories of the request-frame alphabet (initiate uploads of 9 objects, upload segments t0/t1, "
        "expedited/segmented downloads incl. wrong size and refused targets, download segments t0/t1 x {7B, short last, "
        "empty last}, block initiates, client abort, ccs 7, short frames), states de-duplicated on the real server's "
        "(buffer, toggle, multiplexer, store, last error); after every transition response count/shape/content and the "
        "store are compared with the reference; every new state is probed with 4 complete strict transfers. (a) matrix: "
        "every data type x value source x precedence x length 0..L, each uploaded and downloaded in 3 framings. (c) address "
        "pairs: every ordered pair of 20 addresses chosen to collide under common (index, sub-index) foldings (2^k index ratios, "
        "low byte vs sub-index, sums, sub-index 255, three missing entries) x {read-read, write-read, read-write-read}; (d) sweep "
        "of every length 65..1100 (2100) + 7000, 10000: segmented download + upload, framing and payload family rotating. "
        "non-trivial = histories of length >= 2 plus matrix cases with a segmented transfer or a precedence pair")
ASSUMPTIONS = [
    "out-of-sequence requests may be answered by an abort or by a frame with the matching server command specifier, but must not change the store",
    "after an abort or a malformed (short) frame the server may keep or drop the transfer; both are accepted (zombie rule)",
    "abort *codes* are judged by C06; here an abort must only be well-formed and carry the addressed multiplexer where the request has one",
    "depth-bounded: buffers grow with history, there is no closure",
    "short frames are drawn from lengths {1, 3}; 4..7-byte frames are judged as if zero-padded when the server accepts them",
]
EXHAUSTIVE = True


def mux(i, s=0):
    return struct.pack("<HB", i, s)


ENTRIES = [
    dict(index=0x2000, name="small", type="UNSIGNED16", default=0x1234),
    dict(index=0x2001, name="four", type="UNSIGNED32", default=0x01020304),
    dict(index=0x2002, name="str15", type="VISIBLE_STRING", default="ABCDEFGHIJKLMNO"),
    dict(index=0x2003, name="empty", type="OCTET_STRING", default=b""),
    dict(index=0x2004, name="wo", type="UNSIGNED8", default=1, access="wo"),
    dict(index=0x2005, name="ro", type="UNSIGNED8", default=1, access="ro"),
    dict(index=0x2006, name="noval", type="UNSIGNED8", default=None),
    dict(index=0x2007, name="dom", type="DOMAIN", default=None),
    dict(index=0x2008, name="five", type="OCTET_STRING", default=b"\x11\x22\x33\x44\x55"),
    dict(index=0x3000, sub=0, kind="rec", name="n", type="UNSIGNED8", default=2, access="ro", parent_name="Rec"),
    dict(index=0x3000, sub=1, kind="rec", name="m1", type="INTEGER16", default=-2, parent_name="Rec"),
    dict(index=0x3000, sub=2, kind="rec", name="m2", type="VISIBLE_STRING", default="xyz", parent_name="Rec"),
]

EVENTS = {}
for _name, _idx, _sub in (("small", 0x2000, 0), ("four", 0x2001, 0), ("five", 0x2008, 0), ("str15", 0x2002, 0),
                          ("empty", 0x2003, 0), ("wo", 0x2004, 0), ("noval", 0x2006, 0), ("missing", 0x2FFF, 0),
                          ("missing_sub", 0x3000, 9), ("dom", 0x2007, 0)):
    EVENTS["ul_init_" + _name] = bytes([0x40]) + mux(_idx, _sub) + bytes(4)
EVENTS["ul_seg_t0"] = bytes([0x60]) + bytes(7)
EVENTS["ul_seg_t1"] = bytes([0x70]) + bytes(7)
EVENTS["dl_exp_small_ok"] = bytes([0x2B]) + mux(0x2000) + b"\xAA\xBB\0\0"
EVENTS["dl_exp_small_badlen"] = bytes([0x2F]) + mux(0x2000) + b"\xAA\0\0\0"
EVENTS["dl_exp_small_nosize"] = bytes([0x22]) + mux(0x2001) + b"\x01\x02\x03\x04"
EVENTS["dl_exp_ro"] = bytes([0x2F]) + mux(0x2005) + b"\x09\0\0\0"
EVENTS["dl_exp_dom3"] = bytes([0x27]) + mux(0x2007) + b"\x31\x32\x33\0"
EVENTS["dl_seg_init_dom_size9"] = bytes([0x21]) + mux(0x2007) + struct.pack("<L", 9)
EVENTS["dl_seg_init_dom_nosize"] = bytes([0x20]) + mux(0x2007) + bytes(4)
EVENTS["dl_seg_init_str15"] = bytes([0x20]) + mux(0x2002) + bytes(4)
EVENTS["dl_seg_init_ro"] = bytes([0x20]) + mux(0x2005) + bytes(4)
EVENTS["dl_seg_init_small_size7"] = bytes([0x21]) + mux(0x2000) + struct.pack("<L", 7)
EVENTS["dl_seg_t0_7"] = bytes([0x00]) + b"1234567"
EVENTS["dl_seg_t1_7"] = bytes([0x10]) + b"abcdefg"
EVENTS["dl_seg_t1_2_last"] = bytes([0x10 | (5 << 1) | 1]) + b"89" + bytes(5)
EVENTS["dl_seg_t0_3_last"] = bytes([0x00 | (4 << 1) | 1]) + b"xyz" + bytes(4)
EVENTS["dl_seg_t0_2_last"] = bytes([0x00 | (5 << 1) | 1]) + b"\x77\x66" + bytes(5)
EVENTS["dl_seg_t0_4_last"] = bytes([0x00 | (3 << 1) | 1]) + b"\x04\x03\x02\x01" + bytes(3)
EVENTS["dl_exp_four_badlen"] = bytes([0x2B]) + mux(0x2001) + b"\xAA\xBB\0\0"
EVENTS["dl_seg_t0_0_last"] = bytes([0x00 | (7 << 1) | 1]) + bytes(7)
EVENTS["blk_ul_init"] = bytes([0xA4]) + mux(0x2002) + bytes([127, 0, 0, 0])
EVENTS["blk_ul_start"] = bytes([0xA3]) + bytes(7)
EVENTS["blk_dl_init"] = bytes([0xC6]) + mux(0x2007) + struct.pack("<L", 9)
EVENTS["blk_dl_init_other"] = bytes([0xC6]) + mux(0x2002) + struct.pack("<L", 9)      # another object than a running download's
EVENTS["abort"] = bytes([0x80]) + mux(0x2000) + struct.pack("<L", 0x08000000)
EVENTS["ccs7"] = bytes([0xE0]) + bytes(7)
EVENTS["short0"] = b""                          # a request without any data byte
EVENTS["short1_ul"] = bytes([0x40])
EVENTS["short3_dl"] = bytes([0x23, 0x00, 0x20])
EVENTS["short1_ulseg"] = bytes([0x60])
EVENTS["short1_ccs7"] = bytes([0xE0])
EVENT_NAMES = list(EVENTS)

TYPES_NUM = codec.INT_TYPES + ["REAL32", "REAL64", "BOOLEAN"]
TYPES_DATA = ["VISIBLE_STRING", "UNICODE_STRING", "OCTET_STRING", "DOMAIN"]


def bounds(tier):
    return {"bfs_depth": 4 if tier == "quick" else 9, "events": len(EVENTS),
            "matrix_lengths": "0..24 + {40, 64}" if tier == "quick" else "0..64 + {127, 889, 10000}"}


def cases(tier, seed):
    out = []
    lens = list(range(0, 25)) + [40, 64] if tier == "quick" else list(range(0, 65)) + [127, 889, 10000]
    for t in TYPES_NUM:
        out.append({"part": "matrix", "type": t, "seed": seed})
    for t in TYPES_DATA + ["TIME_OF_DAY"]:
        for chunk in range(0, len(lens), 8):
            out.append({"part": "matrix", "type": t, "lens": lens[chunk:chunk + 8], "seed": seed})
    for a in range(len(PAIR_ADDRS)):
        out.append({"part": "address-pairs", "first": a})
    # length sweep beyond the matrix: one segmented download + upload per length, framing / payload family rotating
    top = 1100 if tier == "quick" else 2100
    for lo in range(65, top + 1, 37):
        out.append({"part": "sweep", "lens": [lo, min(lo + 36, top)], "seed": seed})
    out.append({"part": "sweep", "lens": [7000, 7000], "seed": seed})
    out.append({"part": "sweep", "lens": [10000, 10000], "seed": seed})
    return out


def _probe_chunk(hists):
    from mc.run import Stats
    st = Stats()
    for h in hists:
        probe(h, st, {"part": "bfs"})
    return [st]


def run_main(tier, seed, jobs, st):
    depth = 4 if tier == "quick" else 9
    k = seed % len(EVENT_NAMES)
    events = EVENT_NAMES[k:] + EVENT_NAMES[:k]
    states = [[]]
    res = kernel.bfs_parallel(Sim, apply, None, lambda s: s.canon(), jobs=jobs, static_events=events, max_depth=depth,
                              max_states=3000000, collect_states=states)
    st.states += res["states"]
    st.transitions += res["transitions"]
    st.traces += res["transitions"]
    st.evaluations += res["transitions"]
    st.nontrivial_n += sum(1 for h in states if len(h) >= 2)
    seen = set()
    for h, (sig, exp, obs) in res["verdicts"]:
        if sig in seen:
            st.count("more:" + sig)
            continue
        seen.add(sig)
        st.violation(sig, {"part": "bfs", "hist": h}, exp, obs)
    if res["capped"]:
        st.caps.append("BFS state cap reached")
    for part in kernel.parallel_map(_probe_chunk, states, jobs):
        st.merge(part)
    st.outcome(f"bfs depth {res['depth']}")
    st.sample({"bfs": "request histories", "states": res["states"], "transitions": res["transitions"], "depth": res["depth"]})


# ------------------------------------------------------------------ (b) BFS
class Sim(ServerSim):
    def __init__(self):
        super().__init__(ENTRIES)

    def canon(self):
        # the verdict of the next step depends on the reference's view as well (which transfer it believes to be running):
        # two histories that leave the real server in the same state but the reference in different ones are different
        # states of the product
        r = self.ref.st
        rk = None if r is None else (r["kind"], r.get("key") or r.get("mux"), bool(r.get("zombie")), r.get("t"),
                                     bytes(r.get("buf") or b""), r.get("pos"))
        return super().canon() + (rk,)


def apply(sim, evname):
    """One request; returns verdict tuples (signature, expected, observed)."""
    f = EVENTS[evname]
    rs = sim.send(f)
    v = []
    kind = evname.split("_")[0] + "_" + evname.split("_")[1] if "_" in evname else evname
    if sim.exc is not None:
        v.append((f"C02:exception:{type(sim.exc).__name__}:on:{kind}", "no exception leaves the receive path",
                  repr(sim.exc)[:200]))
        if not rs:
            v.append((f"C02:silent:on:{kind}", "exactly one response", "none (exception)"))
        sim.ref.judge(f, rs or [])
        return v
    for k, text in sim.ref.judge(f, rs):
        v.append((f"C02:response:{k}:on:{kind}", "a legal response per CiA 301", text))
    real, ref = sim.real_store(), sim.ref.store
    if real != ref:
        diff = {k: (real.get(k), ref.get(k)) for k in set(real) | set(ref) if real.get(k) != ref.get(k)}
        v.append((f"C02:store:{'changed-by' if len(real) >= len(ref) else 'missing-after'}:{kind}",
                  {f"{k[0]:04X}:{k[1]}": (None if b is None else b.hex()) for k, (a, b) in diff.items()},
                  {f"{k[0]:04X}:{k[1]}": (None if a is None else a.hex()) for k, (a, b) in diff.items()}))
        sim.ref.store = dict(real)     # resynchronise so that one defect is reported once per history
    return v


def probe(hist, st, case):
    """From the state reached by hist: 4 complete strict transfers must work exactly."""
    for pname in ("ul_str15", "ul_small", "dl_seg9", "dl_exp"):
        sim = Sim()
        for ev in hist:
            apply(sim, ev)

        def send(fr):
            rs = sim.send(fr)
            if sim.exc is not None:
                raise sdo_client.ProtocolViolation("exception", repr(sim.exc)[:120])
            return rs
        try:
            if pname == "ul_str15":
                exp = sim.ref.current_value((0x2002, 0))
                got = sdo_client.upload(send, 0x2002, 0)
                ok = isinstance(got, bytes) and bytes(got) == exp
            elif pname == "ul_small":
                exp = sim.ref.current_value((0x2000, 0))
                got = sdo_client.upload(send, 0x2000, 0)
                ok = isinstance(got, bytes) and bytes(got) == exp
            elif pname == "dl_seg9":
                exp = b"PROBE-9by"
                got = sdo_client.download(send, 0x2007, 0, exp, "seg_size")
                ok = got is None and sim.real_store().get((0x2007, 0)) == exp
            else:
                exp = b"\x5A\xA5"
                got = sdo_client.download(send, 0x2000, 0, exp, "exp")
                ok = got is None and sim.real_store().get((0x2000, 0)) == exp
            st.evaluations += 1
            if not ok:
                st.violation(f"C02:probe:{pname}:after-history", dict(case, hist=hist, probe=pname), exp.hex(), repr(got))
        except sdo_client.ProtocolViolation as e:
            st.violation(f"C02:probe:{pname}:{e.kind}", dict(case, hist=hist, probe=pname), "a conformant transfer", str(e))


def run_bfs(case, st):
    if "hist" in case:           # replay of one history (+ optional probe)
        sim = Sim()
        v = []
        for ev in case["hist"]:
            v = apply(sim, ev)
        for sig, exp, obs in v:
            st.violation(sig, case, exp, obs)
        if "probe" in case:
            probe(case["hist"], st, {"part": "bfs"})
        return

    raise simenv.HarnessError("bfs cases are explored by run_main")


# ------------------------------------------------------------------ (a) matrix
def _values(t, seed):
    if t in codec.INT_TYPES:
        lo, hi = codec.int_range(t)
        return [lo, hi, 0, 1, (hi // 3) + seed % 5, -1 if lo < 0 else hi - 1]
    if t == "BOOLEAN":
        return [True, False]
    if t == "REAL32":
        return [0.0, -1.5, 3.4028234663852886e38, 1e-45]
    if t == "REAL64":
        return [0.0, -1.5, 1.7976931348623157e308, 5e-324]
    raise KeyError(t)


def _data_value(t, n, seed):
    if t == "VISIBLE_STRING":
        return "".join(chr(0x21 + (i * 7 + seed) % 90) for i in range(n))
    if t == "UNICODE_STRING":
        return "".join(chr(0x21 + (i * 7 + seed) % 90) for i in range(n))
    return simenv.pattern(n, seed)


def run_matrix(case, st):
    t, seed = case["type"], case.get("seed", 0)
    numeric = t in TYPES_NUM
    if numeric:
        vals = _values(t, seed)
        combos = [(v, None) for v in vals]
    else:
        combos = [(_data_value("OCTET_STRING" if t == "TIME_OF_DAY" else t, n, seed), n) for n in case["lens"]]
    for val, n in combos:
        other = _values(t, seed)[-1] if numeric else _data_value("OCTET_STRING" if t == "TIME_OF_DAY" else t, 3, seed + 1)
        tn = t if t != "TIME_OF_DAY" else "OCTET_STRING"
        want = codec.encode(tn, val)
        want_other = codec.encode(tn, other)
        for source in ("default", "value", "value>default", "store>value", "callback>store", "callback-bytes",
                       "callback-bytearray", "default-bytearray", "store-bytearray"):
            if source.endswith("bytearray") and numeric:
                continue
            for kind in ("var", "rec", "arr"):
                if kind != "var" and source not in ("default", "store>value"):
                    continue
                e = dict(index=0x2100, name="obj", type=t if t != "TIME_OF_DAY" else "OCTET_STRING")
                live = None
                if t == "TIME_OF_DAY":
                    e["type_code"] = 0x0C
                    e["type"] = "TIME_OF_DAY"
                if kind != "var":
                    e.update(kind=kind, sub=1, parent_name="Group")
                if source == "default":
                    e["default"] = val
                elif source == "value":
                    e["value"] = val
                elif source == "value>default":
                    e["default"], e["value"] = other, val
                elif source == "store>value":
                    e["default"], e["value"] = other, other
                elif source == "default-bytearray":
                    live = bytearray(want)
                    e["default"] = live if t not in ("VISIBLE_STRING", "UNICODE_STRING") else val
                else:
                    e["default"] = other
                entries = [e]
                if kind != "var":
                    entries = [dict(index=0x2100, sub=0, kind=kind, name="count", type="UNSIGNED8", default=1,
                                    access="ro", parent_name="Group"), e]
                sim = _MatrixSim(entries, t)
                key = (0x2100, 1 if kind != "var" else 0)
                if source == "store>value":
                    sim.node.data_store.setdefault(0x2100, {})[key[1]] = want
                    sim.ref.store[key] = want
                if source == "callback>store":
                    sim.node.data_store.setdefault(0x2100, {})[key[1]] = want_other
                    sim.node.add_read_callback(lambda index, subindex, od, _v=val: _v)
                if source == "callback-bytes":
                    sim.node.add_read_callback(lambda index, subindex, od, _v=want: _v)
                if source == "callback-bytearray":
                    live = bytearray(want)           # the application's own buffer, handed out on every read
                    sim.node.add_read_callback(lambda index, subindex, od, _v=live: _v)
                if source == "store-bytearray":
                    live = bytearray(want)
                    sim.node.data_store.setdefault(0x2100, {})[key[1]] = live
                    sim.ref.store[key] = want
                st.evaluations += 1
                rc = dict(case, val=repr(val)[:60], source=source, kind=kind)
                if not numeric:
                    rc["lens"] = [n]
                sigk = f"{'num' if numeric else t}:{source}"
                # upload
                try:
                    got = sdo_client.upload(sim.send_strict, *key)
                except sdo_client.ProtocolViolation as ex:
                    st.violation(f"C02:matrix:upload:{ex.kind}:{sigk}:len{_lenclass(len(want))}", rc, want.hex()[:80], str(ex))
                    continue
                if not isinstance(got, bytes) or bytes(got) != want:
                    st.violation(f"C02:matrix:upload:data:{sigk}:len{_lenclass(len(want))}", rc, want.hex()[:80],
                                 repr(got)[:120])
                    continue
                if len(want) > 4 or source not in ("default",):
                    st.nontrivial_n += 1
                if source.endswith("bytearray"):
                    # the supplier's object is the application's: serving it must not change it, and a second (and a
                    # half-read, abandoned) upload must give the same bytes
                    try:
                        if len(want) > 7 and live is not None:
                            # the application changes its object between two segment requests: the transfer serves
                            # the value (and the size) it announced
                            sim.send_strict(bytes([0x40, 0x00, 0x21, key[1], 0, 0, 0, 0]))
                            parts, tg = [], 0
                            for k_ in range(len(want) // 7 + 2):
                                r_ = sim.send_strict(bytes([0x60 | tg]) + bytes(7))
                                if len(r_) != 1 or r_[0][0] >> 5 != 0:
                                    parts = None
                                    break
                                parts.append(r_[0][1:8 - ((r_[0][0] >> 1) & 7)])
                                if k_ == 0:
                                    live[:3] = b"\xAA\xBB\xCC"
                                    live.extend(b"appended")
                                if r_[0][0] & 1:
                                    break
                                tg ^= 0x10
                            torn = None if parts is None else b"".join(parts)
                            live[:] = want
                            if torn != want:
                                st.violation(f"C02:matrix:value-changed-during-upload:{sigk}", rc, want.hex()[:80],
                                             "transfer broke off" if torn is None else torn.hex()[:80])
                                continue
                        if len(want) > 7:
                            sim.send_strict(bytes([0x40, 0x00, 0x21, key[1], 0, 0, 0, 0]))
                            sim.send_strict(bytes([0x60]) + bytes(7))      # first segment only, then a new transfer
                        got3 = sdo_client.upload(sim.send_strict, *key)
                    except sdo_client.ProtocolViolation as ex:
                        st.violation(f"C02:matrix:upload-again:{ex.kind}:{sigk}", rc, want.hex()[:80], str(ex))
                        continue
                    if live is not None and bytes(live) != want:
                        st.violation(f"C02:matrix:supplier-object-modified:{sigk}", rc, want.hex()[:80], bytes(live).hex()[:80])
                        continue
                    if not isinstance(got3, bytes) or bytes(got3) != want:
                        st.violation(f"C02:matrix:upload-again:data:{sigk}:len{_lenclass(len(want))}", rc, want.hex()[:80], repr(got3)[:120])
                        continue
                    st.outcome("matrix ok")
                    continue
                # downloads in three framings, then upload again and check the callback log
                newv = bytes(reversed(want)) if len(set(want)) > 1 else bytes((b + 1) & 0xFF for b in want)
                modes = (["exp"] if 1 <= len(newv) <= 4 else []) + ["seg_size", "seg_nosize", "seg_size:3"]
                for mode in modes:
                    if source in ("callback>store", "callback-bytes", "callback-bytearray"):
                        break
                    seg_len = 3 if mode.endswith(":3") else 7
                    ncb = len(sim.cb_log)
                    try:
                        r = sdo_client.download(sim.send_strict, key[0], key[1], newv, mode.split(":")[0], seg_len)
                        got2 = sdo_client.upload(sim.send_strict, *key)
                    except sdo_client.ProtocolViolation as ex:
                        st.violation(f"C02:matrix:download:{ex.kind}:{sigk}:{mode}", dict(rc, mode=mode), newv.hex()[:80], str(ex))
                        break
                    st.evaluations += 1
                    stored = sim.real_store().get(key)
                    if r is not None or stored != newv or not isinstance(got2, bytes) or bytes(got2) != newv:
                        st.violation(f"C02:matrix:download:data:{sigk}:{mode}:len{_lenclass(len(newv))}", dict(rc, mode=mode),
                                     newv.hex()[:80], f"result={r!r} stored={None if stored is None else stored.hex()[:80]} "
                                                      f"readback={got2!r}"[:300])
                        break
                    new_cb = sim.cb_log[ncb:]
                    if new_cb != [(key[0], key[1], key[0], key[1], newv)]:
                        st.violation(f"C02:matrix:write-callback:{sigk}:{mode}", dict(rc, mode=mode),
                                     [(key[0], key[1], newv.hex()[:40])], repr(new_cb)[:200])
                        break
                    newv = bytes(reversed(newv)) if len(set(newv)) > 1 else bytes((b + 3) & 0xFF for b in newv)
                st.outcome("matrix ok")
    st.sample({"matrix": t, "combos": len(combos)}, cap=3)


def _lenclass(n):
    return "0" if n == 0 else ("1-4" if n <= 4 else ">4")


class _MatrixSim(ServerSim):
    def __init__(self, entries, t):
        super().__init__(entries)

    def send_strict(self, fr):
        rs = self.send(fr)
        if self.exc is not None:
            raise sdo_client.ProtocolViolation("exception", repr(self.exc)[:160])
        return rs


# addresses chosen so that common ways of folding (index, sub-index) into one key collide: index ratios of 2^k,
# index low byte vs sub-index, index + sub-index sums, first / last sub-index, neighbours; the last three do not exist
PAIR_ADDRS = [(0x3000, 0), (0x3000, 1), (0x3000, 2), (0x3000, 8), (0x6000, 0), (0x6000, 1), (0x6000, 4), (0x4000, 0), (0x4000, 1), (0x8000, 0),
              (0x2000, 0), (0x2001, 0), (0x2100, 0), (0x2021, 0), (0x2020, 1), (0x2FFF, 0), (0x3000, 0xFF), (0xC000, 0), (0x3001, 0),
              (0x6000, 2)]
PAIR_MISSING = {(0xC000, 0), (0x3001, 0), (0x6000, 2)}


def _pair_entries():
    es = []
    for i, s_ in PAIR_ADDRS:
        if (i, s_) in PAIR_MISSING:
            continue
        rec = sum(1 for a in PAIR_ADDRS if a[0] == i and a not in PAIR_MISSING) > 1 or s_ > 0
        e = dict(index=i, name="o%04x_%02x" % (i, s_), type="UNSIGNED32", default=(i << 8 | s_) ^ 0x5A5A5A5A)
        if rec:
            e.update(sub=s_, kind="rec", parent_name="R%04x" % i)
        es.append(e)
    return es


def run_pairs(case, st):
    """Two accesses to different addresses of one fresh node: each is answered for ITS address (no aliasing between
    entries whose index / sub-index fold to the same key), in both orders and with a write in between."""
    entries = _pair_entries()
    a = PAIR_ADDRS[case["first"]]
    for b in PAIR_ADDRS:
        if a == b:
            continue
        for op in ("ul-ul", "dl-ul", "ul-dl-ul"):
            sim = _MatrixSim(entries, None)
            st.evaluations += 1
            st.traces += 1
            st.nontrivial_n += 1
            rc = dict(case, b=list(b), op=op)

            def upload(k):
                want = sim.ref.current_value(k) if k not in PAIR_MISSING else None
                try:
                    got = sdo_client.upload(sim.send_strict, k[0], k[1])
                except sdo_client.ProtocolViolation as e:
                    return f"protocol violation {e}"
                if want is None:
                    return None if isinstance(got, sdo_client.Abort) else f"missing entry answered with {got!r}"
                return None if isinstance(got, bytes) and bytes(got) == want else f"{k}: want {want.hex()} got {got!r}"

            def download(k, data):
                try:
                    got = sdo_client.download(sim.send_strict, k[0], k[1], data, "exp")
                except sdo_client.ProtocolViolation as e:
                    return f"protocol violation {e}"
                if k in PAIR_MISSING:
                    return None if isinstance(got, sdo_client.Abort) else f"write to a missing entry accepted: {got!r}"
                if got is not None:
                    return f"write refused: {got!r}"
                sim.ref.store[k] = data
                return None
            steps = {"ul-ul": [("ul", a), ("ul", b)], "dl-ul": [("dl", a), ("ul", b), ("ul", a)],
                     "ul-dl-ul": [("ul", a), ("dl", b), ("ul", a), ("ul", b)]}[op]
            for kind, k in steps:
                st.transitions += 1
                bad = upload(k) if kind == "ul" else download(k, struct.pack("<L", 0x11223300 | (k[1] & 0xFF)))
                if bad:
                    st.violation(f"C02:address-pairs:{kind}:{'missing' if k in PAIR_MISSING else 'present'}-after-{'missing' if (a if k == b else b) in PAIR_MISSING else 'present'}",
                                 rc, "each address answered for itself", bad)
                    break
            else:
                store = {k_: v for k_, v in sim.real_store().items()}
                want_store = {k_: v for k_, v in sim.ref.store.items()}
                if store != want_store:
                    st.violation("C02:address-pairs:store", rc, {str(k_): v.hex() for k_, v in want_store.items()},
                                 {str(k_): v.hex() for k_, v in store.items()})
                else:
                    st.outcome("address pair ok")


def run_sweep(case, st):
    for n in range(case["lens"][0], case["lens"][1] + 1):
        fam = simenv.FILLS[(n // 3) % len(simenv.FILLS)]
        data = simenv.fill(n, case.get("seed", 0), fam)
        mode, seg_len = (("seg_size", 7), ("seg_nosize", 7), ("seg_size", 3), ("seg_nosize", 5))[n % 4] if n < 3000 else ("seg_size", 7)
        kind = ("var", "rec")[n % 2]
        e = dict(index=0x2100, name="obj", type=("DOMAIN", "OCTET_STRING")[(n // 2) % 2], default=None)
        entries = [e]
        if kind == "rec":
            e.update(kind="rec", sub=1, parent_name="Group")
            entries = [dict(index=0x2100, sub=0, kind="rec", name="count", type="UNSIGNED8", default=1, access="ro",
                            parent_name="Group"), e]
        key = (0x2100, 1 if kind == "rec" else 0)
        sim = _MatrixSim(entries, None)
        st.evaluations += 1
        st.nontrivial_n += 1
        rc = {"part": "sweep", "lens": [n, n], "seed": case.get("seed", 0)}
        try:
            r = sdo_client.download(sim.send_strict, key[0], key[1], data, mode, seg_len)
            got = sdo_client.upload(sim.send_strict, *key)
        except sdo_client.ProtocolViolation as ex:
            st.violation(f"C02:sweep:{ex.kind}:{fam}", rc, "conformant transfer", str(ex)[:200])
            continue
        stored = sim.real_store().get(key)
        if r is not None or stored != data or not isinstance(got, bytes) or bytes(got) != data:
            st.violation(f"C02:sweep:data:{fam}", rc, data.hex()[:60], f"result={r!r} stored={None if stored is None else stored.hex()[:60]} readback={repr(got)[:80]}")
            continue
        if sim.cb_log != [(key[0], key[1], key[0], key[1], data)]:
            st.violation(f"C02:sweep:write-callback:{fam}", rc, "one callback with the data", repr(sim.cb_log)[:120])
            continue
        st.outcome("sweep ok")


def run_case(case, st):
    if case["part"] == "sweep":
        return run_sweep(case, st)
    if case["part"] == "address-pairs":
        return run_pairs(case, st)
    if case["part"] == "bfs":
        run_bfs(case, st)
    else:
        run_matrix(case, st)


def finish(st, tier):
    if st.states < 50:
        raise simenv.HarnessError("BFS explored fewer than 50 states")
