"""C13 — SDO block upload returns exactly the server's data or fails visibly.

Explorer A: the real client's block upload against the strict reference block-upload server;
every server->client segment is a choice point {deliver, lost, one data bit flipped, duplicated},
the end frame is a choice point {deliver, wrong CRC, wrong n, wrong ss, lost}; all executions
with at most D deviations run to completion.
"""
import struct

from mc import kernel, simenv
from mc.refs.cia301 import crc16_ccitt
from mc.refs.sdo_server import StrictSdoServer
from mc.sdoharness import RefLink

ID = "C13"
LEVEL = "fault_enumeration"
EXHAUSTIVE = True
RULE = ("case = value length x CRC {granted, refused by server, not requested} ; within a case every set of <= D faults over "
        "{lost, bit flip, duplicate} at every segment (first transmissions and retransmissions) and {wrong crc, wrong n, wrong "
        "ss, lost} at the end frame; the value is read with one read() and, for selected lengths, through raw / 4- / 16-byte "
        "buffered streams with cyclic read-size plans {3,64},{2,50},{1},{6,7},{7,1},{64,3},{5} and a small read followed by "
        "read-everything; undisturbed sweep of every length 65..1800 (3600) + 7100, 10000, 20000 with CRC / size indication / "
        "payload family {pattern, 00, FF, 80, NUL tail, frame-like} rotating; non-trivial = executions with >= 1 fault or >= 2 segments")
ASSUMPTIONS = [
    "a bit flip without negotiated CRC is undetectable by any client and is excluded by rule",
    "differing data with the same CRC-16 as the server's value (collision) is excluded by rule and counted",
    "without CRC the never-different-data clause is applied to loss and duplication (sequence numbers make them detectable)",
    "the reference server answers a client frame that is illegal in its state with an abort",
    "the server answers the block upload initiate with and without size indication (both conformant)",
]
MUX = (0x2000, 0)


def bounds(tier):
    return {"lengths": "1..64" + (" + {888,889,890,1777,1778,1779,10000}" if tier == "thorough" else " + {888, 889, 890} (D=0)"),
            "max_faults": "1 (2 for n<=22)" if tier == "quick" else "2 for n<=64, 1 for the 889 family, 0 for 10000"}


def cases(tier, seed):
    out = []
    for n in range(1, 65):
        for crc in ("granted", "refused", "not-requested"):
            D = (2 if n <= 22 else 1) if tier == "quick" else (3 if n <= 15 else 2)
            out.append({"n": n, "crc": crc, "D": D, "seed": seed})
            if crc != "not-requested" and (tier == "thorough" or n % 3 == 1):
                # a conformant server need not indicate the size in its block upload response
                out.append({"n": n, "crc": crc, "D": min(D, 1 if tier == "quick" else 2), "seed": seed, "nosize": True})
    # histories of read() calls with varying sizes on one stream (raw and through small buffered readers)
    for n in ((8, 15, 22, 36) if tier == "quick" else (8, 9, 15, 22, 36, 50, 64)):
        for buf in (0, 4, 16):
            for plan in ([3, 64], [2, 50], [1], [6, 7], [7, 1], [64, 3], [5], [1, -1], [3, -1], [6, -1]):
                for crc in ("granted", "not-requested"):
                    out.append({"n": n, "crc": crc, "D": 1 if n <= 22 or tier == "thorough" else 0, "seed": seed,
                                "buffering": buf, "reads": plan})
    # histories: an earlier block upload in the same process that did NOT complete (abandoned half-read by the
    # application; aborted by the server in the middle of a sub-block), on another client / on the same one
    for n in (8, 15, 30):
        for pre in ("abandoned-other", "abandoned-same", "server-abort-other", "server-abort-same"):
            for crc in ("granted", "not-requested"):
                out.append({"n": n, "crc": crc, "D": 1 if tier == "quick" else 2, "seed": seed, "pre": pre})
    # an interface that re-uses its receive buffer for every frame it hands to the library
    for n in (1, 7, 8, 15, 22, 64, 900):
        for crc in ("granted", "not-requested"):
            out.append({"n": n, "crc": crc, "D": 1 if n <= 22 else 0, "seed": seed, "reuse_rx": True})
    # timing attributes set by the application: a slow (conformant) server and a client whose time-out was raised
    for n in (8, 22, 64, 900):
        for how in ("instance", "class"):
            for crc in ("granted", "not-requested"):
                out.append({"n": n, "crc": crc, "D": 0, "seed": seed, "slow": 0.5, "timeout": 3.0, "timeout_on": how})
    # length sweep: every length up to two full 127-segment blocks (thorough: four), undisturbed; CRC / size indication /
    # payload family rotating with the length
    top = 1800 if tier == "quick" else 3600
    for n in range(65, top + 1):
        c = {"n": n, "crc": ("granted", "not-requested", "refused")[n % 3], "D": 0, "seed": seed,
             "fill": simenv.FILLS[(n // 3) % len(simenv.FILLS)]}
        if n % 5 == 0:
            c["nosize"] = True
        out.append(c)
    for n in (7100, 10000, 20000):
        out.append({"n": n, "crc": "granted", "D": 0, "seed": seed})
    big = [888, 889, 890] if tier == "quick" else [888, 889, 890, 1777, 1778, 1779, 10000]
    for n in big:
        for crc in ("granted", "refused"):
            out.append({"n": n, "crc": crc, "D": 0 if tier == "quick" or n > 2000 else 1, "seed": seed})
    k = seed % len(out)
    return out[k:] + out[:k]


def one(case, ch):
    import canopen
    n = case["n"]
    data = simenv.fill(n, case.get("seed", 0), case.get("fill", "pattern"))
    srv = StrictSdoServer(5, crc=case["crc"] != "refused", blk_size_indicated=not case.get("nosize"))
    srv.store[MUX] = data
    srv.expected_mux = struct.pack("<HB", *MUX)
    st = {"i": 0, "faults": []}

    def resp_filter(r):
        s = srv.st
        in_blocks = s is not None and s["kind"] == "bul" and s["phase"] in ("blocks",) and not (r[0] >> 5 == 6 and False)
        is_end = s is not None and s["kind"] == "bul" and s["phase"] == "end" and r[0] >> 5 == 6 and (r[0] & 3) == 1
        if is_end:
            k = ch.choose(5, "end-frame")
            if k == 0:
                return [r]
            st["faults"].append(("end", ["", "crc", "n", "ss", "lost"][k]))
            if k == 1:
                return [r[:1] + struct.pack("<H", struct.unpack_from("<H", r, 1)[0] ^ 0x0100) + r[3:]]
            if k == 2:
                return [bytes([r[0] ^ 0x04]) + r[1:]]
            if k == 3:
                return [bytes([(r[0] & ~3) | 2]) + r[1:]]
            return []
        if in_blocks and r[0] != 0x80 and not (r[0] >> 5 == 6 and (r[0] & 3) == 0 and r[1:4] == srv.expected_mux and len(srv.frames) <= 1):
            st["i"] += 1
            k = ch.choose(4, f"segment{st['i']}")
            if k == 0:
                return [r]
            kind = ["", "lost", "flip", "dup"][k]
            st["faults"].append((st["i"], kind, r[0] & 0x7F, bool(r[0] & 0x80)))
            if k == 1:
                return []
            if k == 2:
                return [r[:1] + bytes([r[1] ^ 0x20]) + r[2:]]
            return [r, r]
        return [r]

    pre = case.get("pre")
    armed = {"on": pre is None}
    link = RefLink(srv, resp_filter=lambda r: resp_filter(r) if armed["on"] else [r])
    if pre:
        import canopen as _c
        if pre.endswith("other"):
            psrv = StrictSdoServer(6, crc=True)
            plink = RefLink(psrv, node_id=6)
        else:
            psrv, plink = srv, link
        pmux = (0x2001, 0)
        psrv.store[pmux] = simenv.pattern(40, 3)
        keep = psrv.expected_mux
        psrv.expected_mux = struct.pack("<HB", *pmux)
        try:
            fp = plink.node.sdo.open(pmux[0], pmux[1], "rb", block_transfer=True, buffering=0)
            fp.read(7)
            if pre.startswith("server-abort"):
                plink.from_server([(0x580 + (6 if pre.endswith("other") else 5), bytes([0x80]) + struct.pack("<HB", *pmux) + struct.pack("<L", 0x08000020))])
                try:
                    fp.read(7)
                    fp.read(7)
                except (_c.SdoAbortedError, _c.SdoCommunicationError):
                    pass
            try:
                fp.close()
            except (_c.SdoAbortedError, _c.SdoCommunicationError):
                pass
        except (_c.SdoAbortedError, _c.SdoCommunicationError):
            pass
        # the application gives the transfer up: the server's side of it ends (abort / its own time-out)
        psrv.st = None
        psrv.expected_mux = keep
        del psrv.frames[:], psrv.violations[:], psrv.completed[:], psrv.ack_log[:]
        plink.client_frames[:] = []
        simenv.W.timeouts = 0
        armed["on"] = True
    err = got = None
    restore = None
    link.reuse_rx = bool(case.get("reuse_rx"))
    if case.get("slow"):
        link.delay = case["slow"]
        if case["timeout_on"] == "instance":
            link.node.sdo.RESPONSE_TIMEOUT = case["timeout"]
        else:
            cls = type(link.node.sdo)
            restore = (cls, cls.RESPONSE_TIMEOUT)
            cls.RESPONSE_TIMEOUT = case["timeout"]
    try:
        kw = {} if case.get("buffering") is None else {"buffering": case["buffering"]}
        with link.node.sdo.open(MUX[0], MUX[1], "rb", block_transfer=True,
                                request_crc_support=case["crc"] != "not-requested", **kw) as fp:
            if case.get("reads"):
                got, k = b"", 0
                while True:
                    size = case["reads"][k % len(case["reads"])]
                    if size > 0 and case["buffering"] == 0:
                        buf = bytearray(size)                      # raw stream: readinto() with the caller's buffer
                        chunk = bytes(buf[:fp.readinto(buf) or 0])
                    else:
                        chunk = fp.read(size)                      # size -1: everything that is left
                    k += 1
                    if not chunk:
                        break
                    got += chunk
                    if k > 4 * n + 8:
                        raise AssertionError("read() never reports the end of the data")
            else:
                got = fp.read()
    except Exception as e:  # noqa: BLE001
        err = e
    if restore is not None:
        restore[0].RESPONSE_TIMEOUT = restore[1]
    acks = [(f[1], f[2]) for f in map(bytes.fromhex, srv.frames) if f[0] == 0xA2]
    return dict(err=err, got=got, data=data, faults=st["faults"], viol=list(srv.violations), completed=list(srv.completed),
                acks=acks, timeouts=simenv.W.timeouts, ack_log=list(srv.ack_log), nseg=st["i"], crc_used=case["crc"] == "granted", frames=link.client_frames,
                sdo_error=isinstance(err, (canopen.SdoCommunicationError, canopen.SdoAbortedError)))


def run_case(case, st):
    def on_exec(ch, r):
        st.evaluations += 1
        faults = r["faults"]
        rc = dict(case, choices=ch.choices)
        kinds = "+".join(sorted({f[1] for f in faults})) or "none"
        if faults or r["nseg"] >= 2:
            st.nontrivial_n += 1
        tag = case["crc"] + (":nosize" if case.get("nosize") else "")
        if r["err"] is None:
            same = r["got"] == r["data"]
            st.outcome(f"{kinds} -> returns {'exact' if same else 'DIFFERENT'} ({tag})")
            if not faults:
                if not same:
                    st.violation(f"C13:undisturbed:wrong-data:{tag}", rc, r["data"].hex()[:60], bytes(r["got"]).hex()[:60])
                for code, fr, txt in r["viol"][:1]:
                    st.violation(f"C13:undisturbed:frame:{code}:{tag}", rc, "legal block upload requests", f"{fr}: {txt}")
                if r["timeouts"]:
                    st.violation(f"C13:undisturbed:client-timed-out:{tag}", rc, "no time-out in an undisturbed transfer",
                                 f"{r['timeouts']} virtual time-outs")
                bad = [a for a in r["ack_log"] if a[0] != a[1]]
                if bad:
                    st.violation(f"C13:undisturbed:ackseq:{tag}", rc, "every sub-block acknowledged with the number of segments sent",
                                 f"(ackseq, sent)={bad[:3]}")
                if "blk-ul" not in r["completed"]:
                    st.violation(f"C13:undisturbed:not-closed:{tag}", rc, "end of block upload sent (0xA1) and accepted",
                                 f"completed={r['completed']} viol={r['viol'][:1]}")
                return
            if same:
                return
            if r["crc_used"]:
                if crc16_ccitt(bytes(r["got"])) == crc16_ccitt(r["data"]):
                    st.exclude("CRC-16 collision between returned and true data")
                    return
                st.violation(f"C13:crc:returns-different-data:{kinds}", rc, r["data"].hex()[:80],
                             f"{bytes(r['got']).hex()[:80]} faults={faults}")
            else:
                if any(f[1] == "flip" or (f[0] == "end" and f[1] in ("crc", "n")) for f in faults):
                    st.exclude("bit flip / wrong end-frame n or crc without negotiated CRC is undetectable")
                    return
                st.violation(f"C13:nocrc:returns-different-data:{kinds}", rc, r["data"].hex()[:80],
                             f"{bytes(r['got']).hex()[:80]} faults={faults}")
        else:
            st.outcome(f"{kinds} -> raises {type(r['err']).__name__} ({tag})")
            if not faults:
                st.violation(f"C13:undisturbed:raises:{type(r['err']).__name__}:{tag}", rc, "returns the data",
                             repr(r["err"])[:150] + f" viol={r['viol'][:1]}")
            elif not r["sdo_error"]:
                st.violation(f"C13:wrong-exception:{type(r['err']).__name__}:{kinds}:{tag}", rc,
                             "SdoCommunicationError or SdoAbortedError", repr(r["err"])[:150] + f" faults={faults}")

    res = kernel.explore_choices(lambda ch: one(case, ch), case["D"], on_exec, fixed=case.get("choices"))
    st.max_dev = case["D"] if st.max_dev is None else max(st.max_dev, case["D"])
    st.count("choice_points", res["choice_points"])
    st.sample({"case": case, "executions": res["executions"]}, cap=4)


def finish(st, tier):
    if not any("raises" in k for k in st.outcomes) and not st.violations:
        raise simenv.HarnessError("vacuous: no fault ever made the call fail")
    if not any(k.startswith("none -> returns exact") for k in st.outcomes):
        raise simenv.HarnessError("vacuous: no undisturbed upload succeeded")
