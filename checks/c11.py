"""C11 — NMT commands, states and heartbeats follow the CiA 301 state machine.

Explorer B: master network (RemoteNode 5, RemoteNode 6, network.nmt) and slave network
(LocalNode 5, LocalNode 6) on one SimBus, inline delivery; BFS over command / name / heartbeat /
raw-frame sequences with the reference table stepped in lock-step; in every new state all 256
heartbeat bytes are probed.  Explorer C: wait_for_heartbeat / wait_for_bootup against a receiver
thread over all schedules up to the preemption bound.
"""
from mc import kernel, simenv, vsched
from mc.refs import nmt as R

ID = "C11"
LEVEL = "model_checking"
EXHAUSTIVE = True
RULE = ("BFS from the initial state over events {send_command(cs) on master 5/6/broadcast for 11 command specifiers, state "
        "assignment by every table name + lower-case/empty/invalid names, slave-side state assignment, heartbeat bytes "
        "{0,4,5,127,0x80,0x84,0xFF,75}, raw NMT frames addressed to 7/5/0, node guarding on/off}, de-duplicated on the five state views; after "
        "each step the bus frames and every compared view are checked against the CiA 301 table; all 256 heartbeat bytes are "
        "probed in every new state; waits: all schedules of waiter x receiver (0..2 heartbeats) with <= P preemptions. "
        "non-trivial = distinct states beyond the initial one plus schedules with >= 1 preemption; two threads waiting for one node's heartbeat / boot-up x receiver delivering [5], [0], [0,5] with <= 2 preemptions")
ASSUMPTIONS = [
    "the per-node master view after a broadcast sent by the same network is not compared (own frames are not looped back)",
    "the broadcast master object (Network.nmt) is a command source only; its view is not demanded to follow NMT commands of other masters",
    "a slave that is reset reports INITIALISING until commanded otherwise (the library leaves the automatic transition to the application)",
    "waits: time-outs are long compared with scheduling delays (a timed wait expires only at quiescence)",
]
CS = (1, 2, 80, 96, 128, 129, 130, 0, 3, 127, 255)
NAMES = list(R.NAME_TO_CS) + ["operational", "", "INVALID", "Pre-Operational"]
HB = (0, 4, 5, 127, 0x80, 0x84, 0xFF, 75)
EVENTS = [("cmd", who, cs) for who in ("m5", "m6", "mb") for cs in CS] + \
         [("name", who, n) for who in ("m5", "mb") for n in NAMES] + \
         [("slave_name", 5, n) for n in ("PRE-OPERATIONAL", "OPERATIONAL", "STOPPED", "RESET", "RESET COMMUNICATION")] + \
         [("hb", nid, b) for nid in (5, 6) for b in HB] + \
         [("raw", tgt, cs) for tgt in (7, 5, 0) for cs in (1, 128)] + \
         [("guard", "m5", "start"), ("guard", "m5", "stop")]
OD = None


def od():
    global OD
    if OD is None:
        from canopen.objectdictionary import ODVariable, ObjectDictionary, datatypes as dt
        OD = ObjectDictionary()
        v = ODVariable("hb", 0x1017)
        v.data_type = dt.UNSIGNED16
        v.default = 0
        OD.add_object(v)
    return OD


def bounds(tier):
    return {"bfs_depth": 3 if tier == "quick" else 4, "events": len(EVENTS),
            "preemption_bound": 2 if tier == "quick" else 3}


class World:
    def __init__(self):
        import canopen
        simenv.new_world()
        self.bus = simenv.SimBus("inline")
        self.bus.reuse_rx = True         # the interface re-uses its receive buffer
        self.m, self.s = canopen.Network(), canopen.Network()
        self.bus.attach(self.m, "master")
        self.bus.attach(self.s, "slave")
        self.r5, self.r6 = self.m.add_node(5, od()), self.m.add_node(6, od())
        self.l5, self.l6 = self.s.create_node(5, od()), self.s.create_node(6, od())
        self.ref = {"m5": 0, "m6": 0, "mb": 0, "s5": 0, "s6": 0}
        self.ids = {"m5": 5, "m6": 6, "mb": 0, "s5": 5, "s6": 6}
        self.skip = set()        # views not compared until resynchronised

    def objs(self):
        return {"m5": self.r5.nmt, "m6": self.r6.nmt, "mb": self.m.nmt, "s5": self.l5.nmt, "s6": self.l6.nmt}

    def views(self):
        return {k: o._state for k, o in self.objs().items()}

    def canon(self):
        # every scalar attribute of the five NMT objects except the heartbeat time stamp: hidden state such as
        # _state_received must not be merged away (a wrong abstraction hides bugs silently)
        hidden = tuple((k, tuple(sorted((a, v) for a, v in o.__dict__.items()
                                        if a not in ("timestamp", "id") and isinstance(v, (int, str, bool, type(None))))))
                       for k, o in sorted(self.objs().items()))
        return hidden + (tuple(sorted(self.skip)), self.r5.nmt._node_guarding_producer is not None)


def apply(w, ev):
    v = []
    kind = ev[0]
    n0 = len(w.bus.log)
    ref = w.ref
    objs = w.objs()
    if kind == "cmd":
        _, who, cs = ev
        nid = w.ids[who]
        try:
            objs[who].send_command(cs)
        except Exception as e:  # noqa: BLE001
            v.append((f"C11:send_command-raises:{type(e).__name__}", f"frame [{cs},{nid}] sent", repr(e)[:120]))
        frames = [(src, cid, d) for (src, cid, d, rem, ext) in w.bus.log[n0:]]
        if frames != [("master", 0, bytes([cs, nid]))]:
            v.append(("C11:command-frame", [("master", 0, bytes([cs, nid]).hex())], [(s, c, d.hex()) for s, c, d in frames]))
        for k in ("s5", "s6"):
            ref[k] = R.after_command(ref[k], w.ids[k], cs, nid)
        if cs in R.COMMAND_TABLE:
            ref[who] = R.COMMAND_TABLE[cs]
        if who == "mb" and cs in R.COMMAND_TABLE:
            w.skip |= {"m5", "m6"}
        elif who in w.skip and cs in R.COMMAND_TABLE:
            w.skip.discard(who)
    elif kind == "name":
        _, who, name = ev
        nid = w.ids[who]
        raised = None
        try:
            objs[who].state = name
        except ValueError:
            raised = "ValueError"
        except Exception as e:  # noqa: BLE001
            raised = type(e).__name__
            v.append((f"C11:state-setter-raises:{raised}", "ValueError for invalid names, nothing otherwise", repr(e)[:120]))
        frames = [(src, cid, d) for (src, cid, d, rem, ext) in w.bus.log[n0:]]
        if name in R.NAME_TO_CS:
            cs = R.NAME_TO_CS[name]
            if raised == "ValueError":
                v.append(("C11:valid-name-rejected", name, "ValueError"))
            if frames != [("master", 0, bytes([cs, nid]))] and raised is None:
                v.append(("C11:name-frame", [("master", 0, bytes([cs, nid]).hex())], [(s, c, d.hex()) for s, c, d in frames]))
            for k in ("s5", "s6"):
                ref[k] = R.after_command(ref[k], w.ids[k], cs, nid)
            ref[who] = R.COMMAND_TABLE[cs]
            if who == "mb":
                w.skip |= {"m5", "m6"}
            else:
                w.skip.discard(who)
        else:
            if raised != "ValueError":
                v.append(("C11:invalid-name-not-rejected", f"ValueError for {name!r}", raised))
            if frames:
                v.append(("C11:invalid-name-sends", "nothing sent", [(s, c, d.hex()) for s, c, d in frames]))
    elif kind == "slave_name":
        _, nid, name = ev
        cs = R.NAME_TO_CS[name]
        try:
            w.l5.nmt.state = name
        except Exception as e:  # noqa: BLE001
            v.append((f"C11:slave-state-setter-raises:{type(e).__name__}", "state assigned", repr(e)[:120]))
        ref["s5"] = R.COMMAND_TABLE[cs]
        frames = [(src, cid, d) for (src, cid, d, rem, ext) in w.bus.log[n0:]]
        if ref["s5"] == 0:
            if frames != [("slave", 0x705, b"\x00")]:
                v.append(("C11:bootup-frame", [("slave", 0x705, "00")], [(s, c, d.hex()) for s, c, d in frames]))
            ref["m5"] = R.PRE_OPERATIONAL          # the master hears the boot-up message
            w.skip.discard("m5")
        elif frames:
            v.append(("C11:slave-sends", "no frame", [(s, c, d.hex()) for s, c, d in frames]))
    elif kind == "hb":
        _, nid, b = ev
        ts = 77.0 + b
        try:
            w.bus.inject(0x700 + nid, bytes([b]), timestamp=ts)
        except Exception as e:  # noqa: BLE001
            v.append((f"C11:heartbeat-raises:{type(e).__name__}", "state updated", repr(e)[:120]))
        ref["m%d" % nid] = R.after_heartbeat(b)
        w.skip.discard("m%d" % nid)
        if objs["m%d" % nid].timestamp != ts:
            v.append(("C11:heartbeat-timestamp", ts, objs["m%d" % nid].timestamp))
    elif kind == "guard":
        # node guarding on / off: how heartbeats and commands are processed must not depend on it
        try:
            if ev[2] == "start":
                objs[ev[1]].start_node_guarding(0.5)
            else:
                objs[ev[1]].stop_node_guarding()
        except Exception as e:  # noqa: BLE001
            v.append((f"C11:node-guarding-raises:{type(e).__name__}", "accepted", repr(e)[:120]))
    elif kind == "raw":
        _, tgt, cs = ev
        w.bus.inject(0, bytes([cs, tgt]))
        for k in ref:
            if k == "mb":
                continue        # Network.nmt is a pure command source; it does not listen to foreign NMT commands
            if k in w.skip and R.addressed(w.ids[k], tgt):
                w.skip.discard(k)
            ref[k] = R.after_command(ref[k], w.ids[k], cs, tgt)
    got = w.views()
    for k in got:
        if k in w.skip:
            continue
        if got[k] != ref[k]:
            v.append((f"C11:state:{k[0] == 'm' and 'master' or 'slave'}:after-{kind}", (k, ref[k]), (k, got[k])))
            ref[k] = got[k]
        # the reported name
        try:
            name = w.objs()[k].state
            if ref[k] in R.STATE_NAMES and name != R.STATE_NAMES[ref[k]]:
                v.append(("C11:state-name", R.STATE_NAMES[ref[k]], name))
        except Exception as e:  # noqa: BLE001
            v.append((f"C11:state-getter-raises:{type(e).__name__}", "a name", repr(e)[:100]))
    return v


def probe_all_heartbeats(hist, st, case):
    """In the state reached by hist: every heartbeat byte 0..255 for node 5 (depth 1)."""
    for b in range(256):
        w = World()
        for ev in hist:
            apply(w, ev)
        st.evaluations += 1
        for sig, exp, obs in apply(w, ("hb", 5, b)):
            st.violation(sig, dict(part="bfs", hist=[list(e) for e in hist] + [["hb", 5, b]]), exp, obs)
            return


def cases(tier, seed):
    out = []
    k = seed % len(EVENTS)
    for ev in [None] + EVENTS[k:] + EVENTS[:k]:
        out.append({"part": "hb256", "hist": [] if ev is None else [list(ev)]})
    out.append({"part": "reboot"})
    P = 2 if tier == "quick" else 3
    for which in ("heartbeat", "bootup"):
        for hbs in ([], [5], [0], [5, 4], [5, 0], [0, 5]):
            out.append({"part": "wait", "which": which, "hbs": hbs, "P": P})
        # two application threads wait for the same node
        for hbs in ([5], [0], [0, 5]) + (([5, 0], [5, 4]) if tier == "thorough" else ()):
            out.append({"part": "wait2", "which": which, "hbs": hbs, "P": 2 if tier == "quick" or len(hbs) > 1 else 3})
    return out


def run_main(tier, seed, jobs, st):
    depth = 3 if tier == "quick" else 4
    res = kernel.bfs_parallel(World, apply, None, lambda w: w.canon(), jobs=jobs, static_events=EVENTS,
                              terminal=lambda w, v: bool(v), max_states=1000000, max_depth=depth)
    _merge(res, st, {"part": "bfs", "first": None, "depth": depth})
    st.sample({"bfs": "global", "states": res["states"], "transitions": res["transitions"], "closed": res["closed"],
               "depth": res["depth"]})
    if res["capped"]:
        st.caps.append("state cap reached")


def _merge(res, st, case):
    st.states += res["states"]
    st.transitions += res["transitions"]
    st.traces += res["transitions"]
    st.evaluations += res["transitions"]
    st.nontrivial_n += max(res["states"] - 1, 0)
    seen = set()
    for h, (sig, exp, obs) in res["verdicts"]:
        if sig in seen:
            continue
        seen.add(sig)
        st.violation(sig, dict(part="bfs", first=case["first"], depth=case["depth"], hist=[list(e) for e in h]), exp, obs)
    st.outcome("bfs closed" if res["closed"] else f"bfs depth {res['depth']}")


def run_reboot(case, st):
    """A device that reboots on a reset command and sends its boot-up message at once (synchronous interface: the boot-up
    is processed while the master is still inside send_command): the master's view is what the LAST frame says."""
    for who in ("m5", "mb"):
        for how, arg in (("cmd", 129), ("cmd", 130), ("name", "RESET"), ("name", "RESET COMMUNICATION")):
            for before in ((), (("hb", 5, 5),), (("cmd", "m5", 1), ("hb", 5, 5))):
                w = World()
                for ev in before:
                    apply(w, ev)

                def app(cid, data, ts, _w=w):
                    if len(data) >= 2 and data[0] in (129, 130) and data[1] in (0, 5):
                        _w.l5.nmt.state = "RESET"             # the device reboots: boot-up message goes out
                w.s.subscribe(0, app)
                st.evaluations += 1
                st.nontrivial.add(("reboot", who, how, arg, len(before)))
                rc = dict(case, who=who, how=how, arg=arg, before=[list(e) for e in before])
                n0 = len(w.bus.log)
                try:
                    if how == "cmd":
                        w.objs()[who].send_command(arg)
                    else:
                        w.objs()[who].state = arg
                except Exception as e:  # noqa: BLE001
                    st.violation(f"C11:reboot:raises:{type(e).__name__}", rc, "command sent", repr(e)[:100])
                    continue
                frames = [(src, cid, bytes(d)) for (src, cid, d, rem, ext) in w.bus.log[n0:]]
                if ("slave", 0x705, b"\x00") not in frames:
                    raise simenv.HarnessError(f"the rebooting device sent no boot-up message: {frames}")
                got = w.r5.nmt._state
                if got != R.PRE_OPERATIONAL:
                    st.violation("C11:reboot:master-view-after-boot-up", rc, ("m5", R.PRE_OPERATIONAL), ("m5", got))
                    continue
                st.outcome("reboot ok")


def run_case(case, st):
    if case["part"] == "reboot":
        return run_reboot(case, st)
    if case["part"] == "bfs":
        if "hist" in case:
            w = World()
            v = []
            for ev in case["hist"]:
                v = apply(w, tuple(ev))
            for sig, exp, obs in v:
                st.violation(sig, case, exp, obs)
            return
        raise simenv.HarnessError("bfs cases are run by run_main")
    elif case["part"] == "hb256":
        probe_all_heartbeats([tuple(e) for e in case["hist"]], st, case)
        st.nontrivial_n += 1
    elif case["part"] == "wait2":
        run_wait2(case, st)
    else:
        run_wait(case, st)


# ------------------------------------------------------------------ waits (explorer C)
def _wait_verdict(which, name, res, events, TIMEOUT):
    """Oracle for one waiter.  The library processes a heartbeat inside the critical section of the condition that the
    waiters use, and calls the heartbeat callbacks there: when that is so (every ("hb-cs", state, True) note), the
    callback is the moment the message is processed and a wait must return exactly for messages processed after it
    began.  When the callbacks run outside the critical section there is no such moment: a wait must return for a
    message delivered entirely after it began waiting, must fail when every delivery had ended before it was called, and
    may do either for a message in flight.  Returns (ok, kind, want, during)."""
    first_wait = next((i for i, e in enumerate(events) if e[:2] == ("wait-enter", name)), None)
    called = next((i for i, e in enumerate(events) if e == ("call", name)), 0)
    match = (lambda x: True) if which == "heartbeat" else (lambda x: x == 0)
    cs = [(i, e) for i, e in enumerate(events) if e[0] == "hb-cs"]
    if all(e[2] for i, e in cs):
        during = [e[1] for i, e in cs if first_wait is not None and i > first_wait]
        must_return, must_fail = any(match(x) for x in during), not any(match(x) for x in during)
        states = during
    else:
        starts = {e[1]: i for i, e in enumerate(events) if e[0] == "hb-start"}
        ends = {e[1]: i for i, e in enumerate(events) if e[0] == "hb-end"}
        vals = {e[1]: e[2] for e in events if e[0] == "hb-start"}
        after = [vals[k] for k, i in starts.items() if first_wait is not None and i > first_wait]
        inflight = [vals[k] for k in starts if ends.get(k, len(events)) > called]
        during = after
        must_return, must_fail = any(match(x) for x in after), not any(match(x) for x in inflight)
        states = list(vals.values())
    if must_return:
        ok = res[0] == "returned" and res[2] < TIMEOUT + 0.2
        if ok and which == "heartbeat":
            ok = res[2] < TIMEOUT and res[1] in {R.STATE_NAMES.get(R.after_heartbeat(x)) for x in states}
        return ok, "missed", f"{name} returns (messages {during} were processed during its wait)", during
    if must_fail:
        ok = res[0] == "NmtError" and (which != "heartbeat" or abs(res[2] - TIMEOUT) < 0.2)
        return ok, "spurious", f"{name}: NmtError at the time-out (nothing arrived during its wait)", during
    return True, "in-flight", "", during


def run_wait2(case, st):
    """Two waiters on one NmtMaster: every waiter whose wait had begun when a matching message was processed returns."""
    import canopen.nmt as nmt_mod
    vsched.interpose(nmt_mod.NmtMaster, {"_state_received", "_state", "timestamp", "_heartbeats", "_bootups", "_bootup_received"})
    which, hbs, P = case["which"], case["hbs"], case["P"]
    TIMEOUT = 1.0

    def harness(s):
        m = nmt_mod.NmtMaster(5)
        m.add_heartbeat_callback(lambda state: s.note(("hb-cs", state, m.state_update.lock.owner is s.cur)))
        t0 = simenv.W.now

        def waiter():
            s.note(("call", s.cur.name))
            try:
                r = m.wait_for_heartbeat(TIMEOUT) if which == "heartbeat" else m.wait_for_bootup(TIMEOUT)
                return ("returned", r, round(simenv.W.now - t0, 4))
            except nmt_mod.NmtError:
                return ("NmtError", None, round(simenv.W.now - t0, 4))

        def receiver():
            for i, b in enumerate(hbs):
                s.note(("hb-start", i, b))
                m.on_heartbeat(0x705, bytes([b]), 10.0 + i)
                s.note(("hb-end", i))
        ws = [s.spawn(waiter, "w1"), s.spawn(waiter, "w2")]
        s.spawn(receiver, "receiver")
        return lambda: ([w.res if w.exc is None else ("EXC", repr(w.exc)[:80], 0) for w in ws], tuple(s.events), s.deadlock)

    def on_exec(s, out):
        results, events, deadlock = out
        st.evaluations += 1
        st.traces += 1
        st.transitions += len(s.trace)
        if s.pre:
            st.nontrivial_n += 1          # (schedules are distinct by construction; keeping them costs gigabytes)
        rc = dict(case, schedule=[t[1] for t in s.trace])
        if deadlock:
            st.violation(f"C11:wait2:{which}:deadlock", rc, "no deadlock", deadlock)
            return
        if s.hit_horizon:
            st.caps.append("schedule horizon hit")
            return
        for name, res in zip(("w1", "w2"), results):
            if res[0] == "EXC":
                st.violation(f"C11:wait2:{which}:exception", rc, "state or NmtError", res[1])
                return
            ok, kind, want, during = _wait_verdict(which, name, res, events, TIMEOUT)
            st.outcome(f"{which} two waiters: {kind} -> {res[0]}")
            if not ok:
                st.violation(f"C11:wait2:{which}:{kind}", rc, want, f"{results} events={events}"[:400])
                return

    if "schedule" in case:
        on_exec(*vsched.replay(harness, case))
        return
    stats = vsched.explore_with_crosscheck(st, harness, P, on_exec, case)
    st.states += stats["executions"]
    st.count("schedules", stats["executions"])
    st.count("schedules_with_preemption", stats["with_preemption"])
    st.sample({"wait2": which, "heartbeats": hbs, "schedules": stats["executions"]}, cap=8)


def run_wait(case, st):
    import canopen.nmt as nmt_mod
    vsched.interpose(nmt_mod.NmtMaster, {"_state_received", "_state", "timestamp", "_heartbeats", "_bootups", "_bootup_received"})
    which, hbs, P = case["which"], case["hbs"], case["P"]
    TIMEOUT = 1.0

    def harness(s):
        m = nmt_mod.NmtMaster(5)
        m.add_heartbeat_callback(lambda state: s.note(("hb-cs", state, m.state_update.lock.owner is s.cur)))
        t0 = simenv.W.now

        def waiter():
            s.note(("call", "waiter"))
            try:
                if which == "heartbeat":
                    r = m.wait_for_heartbeat(TIMEOUT)
                else:
                    r = m.wait_for_bootup(TIMEOUT)
                return ("returned", r, round(simenv.W.now - t0, 4))
            except nmt_mod.NmtError:
                return ("NmtError", None, round(simenv.W.now - t0, 4))

        def receiver():
            for i, b in enumerate(hbs):
                s.note(("hb-start", i, b))
                m.on_heartbeat(0x705, bytes([b]), 10.0 + i)
                s.note(("hb-end", i))
        wt = s.spawn(waiter, "waiter")
        if hbs:
            s.spawn(receiver, "receiver")
        return lambda: (wt.res if wt.exc is None else ("EXC", repr(wt.exc)[:80], 0), tuple(s.events), s.deadlock)

    def on_exec(s, out):
        res, events, deadlock = out
        st.evaluations += 1
        st.traces += 1
        st.transitions += len(s.trace)
        if s.pre:
            st.nontrivial_n += 1
        rc = dict(case, schedule=[t[1] for t in s.trace])
        if deadlock:
            st.violation(f"C11:wait:{which}:deadlock", rc, "no deadlock", deadlock)
            return
        if s.hit_horizon:
            st.caps.append("schedule horizon hit")
            return
        if res[0] == "EXC":
            st.violation(f"C11:wait:{which}:exception", rc, "state or NmtError", res[1])
            return
        ok, kind, want, during = _wait_verdict(which, "waiter", res, events, TIMEOUT)
        st.outcome(f"{which} {kind} -> {res[0]}")
        if not ok:
            st.violation(f"C11:wait:{which}:{kind}", rc, want, f"{res} events={events}"[:400])

    if "schedule" in case:
        on_exec(*vsched.replay(harness, case))
        return
    stats = vsched.explore_with_crosscheck(st, harness, P, on_exec, case)
    st.states += stats["executions"]
    st.count("schedules", stats["executions"])
    st.count("schedules_with_preemption", stats["with_preemption"])
    st.sample({"wait": which, "heartbeats": hbs, "schedules": stats["executions"], "outcomes": stats["outcomes"] and len(stats["outcomes"])}, cap=8)


def finish(st, tier):
    if st.states < 300 and not st.violations:
        raise simenv.HarnessError("fewer states than expected")
    if not st.counters.get("schedules_with_preemption") and not st.violations:
        raise simenv.HarnessError("no schedule with a preemption explored")
