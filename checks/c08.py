"""C08 — importing an EDS/DCF yields exactly the described object dictionary.

Exhaustive enumeration of a document grammar: documents are written by the independent writer
(mc/refs/eds_writer.py) from a plain-dict model and imported with canopen.import_od (text stream
named x.eds / x.dcf, and real files for the suffix dispatch); the imported dictionary is compared
attribute by attribute with the model.
"""
import io
import itertools
import os
import tempfile

from mc import simenv
from mc.refs import eds_writer as W

ID = "C08"
LEVEL = "exploration"
EXHAUSTIVE = True
RULE = ("full product object kind {VAR, VAR without ObjectType, ObjectType 2, RECORD member, ARRAY member, CompactSubObj, "
        "CompactSubObj + name list} x data type (25 codes) x default {absent, 0, max, min (negative decimal), $NODEID+x, "
        "x+$NODEID, with blanks} x limits {none, low, high, both} x {decimal, two's-complement hex}; the dimensions access "
        "type x case, PDOMapping {absent,0,1,0x1}, number spelling, ParameterValue {absent, absolute, $NODEID-relative}, "
        "sub/Sub, sub-index digit case, node id source {argument, file, absent} are rotated (thorough: multiplied in); plus "
        "document-level cases (device info, comments, bit rate, suffix dispatch, pairs of kinds). non-trivial = documents "
        "with a non-default spelling, a relative value, a limit or a structured object; defaults of signed objects as two's complement hex, limits and defaults of REAL objects as decimal fractions and as whole numbers in hex")
ASSUMPTIONS = [
    "well-formed = unique names without ';' or leading/trailing blanks, object (parent) names without '.' (member names may contain dots), dense name lists, no octal spellings, no EPF",
    "limits of REAL objects are spelled as decimal fractions",
    "$NODEID-relative values are not compared when no node id is in force",
    "for unnamed CompactSubObj arrays the generated member names, their ParameterValue and $NODEID flag are not compared (kind, type, access, PDO mapping, default, limits, sub-index are)",
]
TYPES = [1, 2, 3, 4, 5, 6, 7, 8, 9, 0xA, 0xB, 0xC, 0xD, 0xF, 0x10, 0x11, 0x12, 0x13, 0x14, 0x15, 0x16, 0x18, 0x19, 0x1A, 0x1B]
KINDS = ["var", "var-noobjtype", "domain", "record", "array", "compact", "compact-named"]
DEFAULTS = ["absent", "zero", "max", "min", "rel0", "rel1", "rel2", "min-hex", "minus2-hex"]
LIMITS = ["none", "low", "high", "both", "low-hex", "high-hex", "both-hex"]
ACCESS = ["rw", "ro", "wo", "rwr", "rww", "const"]
NODE_SRC = ["arg", "file", "absent", "both"]


def bounds(tier):
    return {"product": f"{len(KINDS)} kinds x {len(TYPES)} types x {len(DEFAULTS)} defaults x {len(LIMITS)} limits",
            "rotated_dimensions": "rotated" if tier == "quick" else "access x value x node-id source multiplied in"}


def type_range(t):
    if t in W.SIGNED_WIDTH:
        w = W.SIGNED_WIDTH[t]
        return -(1 << (w - 1)), (1 << (w - 1)) - 1
    if t in W.UNSIGNED_WIDTH:
        return 0, (1 << W.UNSIGNED_WIDTH[t]) - 1
    return None


def cases(tier, seed):
    out = []
    for kind in KINDS:
        for t in TYPES:
            out.append({"part": "product", "kind": kind, "type": t, "seed": seed, "full": tier == "thorough"})
    out.append({"part": "document"})
    out.append({"part": "pairs"})
    return out


def make_default(name, t, rot):
    r = type_range(t)
    if name == "absent":
        return None
    if r is None:
        if t in W.REAL:
            return ("abs", {"zero": 0.0, "max": 1.5, "min": -2.25e10, "min-hex": 50.0, "minus2-hex": 0.0}.get(name, 3.0))
        if t in W.TEXT:
            return ("abs", {"zero": "x", "max": "hello world", "min": "a=b%c"}.get(name, "q r s"))
        if t in W.BYTES:
            return ("abs", {"zero": b"\x00", "max": b"\x01\xff", "min": b"\xde\xad\xbe\xef"}.get(name, b"\x10"))
        if t == 1:
            return ("abs", 0 if name in ("zero", "min") else 1)
        return ("abs", {"zero": 0, "max": 1000, "min": 1}.get(name, 5))
    lo, hi = r
    if name == "zero":
        return ("abs", 0)
    if name == "max":
        return ("abs", hi)
    if name in ("min", "min-hex"):
        return ("abs", lo)
    if name == "minus2-hex":
        return ("abs", -2 if lo < 0 else 2)
    return ("rel", min(0x180 + rot, hi - 0x7F))        # rel0/1/2: three textual forms of a $NODEID-relative value


def expected_value(spec, node_id):
    if spec is None:
        return None
    if spec[0] == "rel":
        return None if node_id is None else spec[1] + node_id
    return spec[1]


# (10 lines and more: option names LineN stop sorting like numbers)
COMMENTS = [None, [], ["one"], ["first line", "second; line"], ["line %d of ten" % i for i in range(1, 11)],
            ["l%d" % i for i in range(1, 13)], ["comment %03d" % (i * 7 % 26) for i in range(1, 26)],
            ["c%d" % i for i in range(1, 121)]]


def build_doc(kind, t, dname, lname, rot, style_rot, value_mode, access, node_src):
    r = type_range(t)
    # member names may contain dots (the parent's name does not: 'Parent.Child' is cut at the first dot)
    var = {"sub": 0, "name": ("The Entry", "Max. current", "Rev. 2.1 offset")[rot % 3], "type": t, "access": access,
           "pdo": (None, 0, 1, 1)[rot % 4]}
    var["default"] = make_default(dname, t, rot % 3)
    style = {"number": ("dec", "hex", "HEX")[style_rot % 3], "sub": ("sub", "Sub")[style_rot % 2],
             "subdigits": ("upper", "lower")[(style_rot // 2) % 2], "access_upper": bool((style_rot // 3) % 2),
             "pdo_spelling": "hex" if rot % 4 == 3 else "dec", "limit_hex": lname.endswith("-hex"),
             "rel_form": {"rel0": 0, "rel1": 1, "rel2": 2 + rot % 2}.get(dname, rot % 4),
             "value_hex2c": dname.endswith("-hex")}
    if r is not None and lname != "none":
        lo, hi = r
        if lname.startswith(("low", "both")):
            var["low"] = lo if rot % 2 else (lo // 3 if lo else 1)
        if lname.startswith(("high", "both")):
            var["high"] = hi if rot % 2 else max(hi // 3, 2)
    if t in W.REAL and lname in ("low", "high", "both"):
        if lname != "high":
            var["low"] = (-2.5, -1e-3)[rot % 2]
        if lname != "low":
            var["high"] = (1.0e6, 0.75)[rot % 2]
    if t in W.REAL and lname.endswith("-hex"):
        # whole numbers, written like every other number of a document that uses hex throughout
        if not lname.startswith("high"):
            var["low"] = (0, 16)[rot % 2]
        if not lname.startswith("low"):
            var["high"] = (100, 0xFFFF)[rot % 2]
    dcf = value_mode != "absent"
    if value_mode == "abs":
        var["value"] = make_default("max" if dname != "max" else "zero", t, rot)
    elif value_mode == "rel" and r is not None:
        var["value"] = ("rel", min(0x200 + rot, r[1] - 0x7F))
    elif value_mode == "rel":
        var["value"] = make_default("min", t, rot)
    node_file = 0x11 if node_src in ("file", "both") else None
    node_arg = 0x23 if node_src in ("arg", "both") else None
    doc = {"doc_type": "dcf" if dcf else "eds", "node_id": node_file, "baudrate": (None, 500, 125)[rot % 3],
           "comments": COMMENTS[rot % len(COMMENTS)],
           "device_info": {"VendorName": "ACME", "ProductName": "Thing", "VendorNumber": "0x1234", "BaudRate_250": 1}}
    index = (0x2000, 0x1000, 0x6040, 0x1A00)[rot % 4]
    obj = {"kind": kind, "index": index, "name": "Obj Name"}
    if kind in ("var", "var-noobjtype", "domain"):
        obj["vars"] = [var]
    elif kind in ("record", "array"):
        count = {"sub": 0, "name": "Highest sub-index", "type": 5, "access": "ro", "pdo": None, "default": ("abs", 2)}
        other = {"sub": 0xA, "name": ("Other", "Temp. winding")[rot % 2], "type": 7, "access": "rw", "pdo": 0, "default": ("abs", 77)}
        var["sub"] = 1
        obj["vars"] = [count, var, other]
    else:
        obj["vars"] = [var]
        obj["n"] = 3
        if kind == "compact-named":
            obj["names"] = (["alpha", "beta", "gamma"], ["alpha", "be.ta", "gamma 2.0"])[rot % 2]
    doc["objects"] = [obj]
    return doc, style, node_arg


def compare(od, doc, node_arg, st, rc, sigp):
    """Attribute-wise comparison of the imported dictionary with the model."""
    from canopen.objectdictionary import ODArray, ODRecord, ODVariable
    node_id = node_arg if node_arg is not None else doc.get("node_id")
    ok = True

    def bad(what, exp, got):
        nonlocal ok
        ok = False
        st.violation(f"C08:{what}:{sigp}", rc, exp, got)

    def look(container, key):
        try:
            return container[key]
        except Exception as e:  # noqa: BLE001
            return "lookup raised " + repr(e)[:80]

    for obj in doc["objects"]:
        kind = obj["kind"]
        try:
            o = od[obj["index"]]
        except Exception as e:  # noqa: BLE001
            bad("object-missing", hex(obj["index"]), repr(e)[:80])
            continue
        want_cls = {"record": ODRecord, "array": ODArray, "compact": ODArray, "compact-named": ODArray}.get(kind, ODVariable)
        if not isinstance(o, want_cls):
            bad("kind", want_cls.__name__, type(o).__name__)
            continue
        if o.name != obj["name"] or look(od, obj["name"]) is not o:
            bad("name-lookup", obj["name"], o.name)
        members = []
        if want_cls is ODVariable:
            members = [(o, dict(obj["vars"][0], name=obj["name"]), True)]
        elif kind in ("record", "array"):
            if sorted(o.subindices) != sorted(v["sub"] for v in obj["vars"]):
                bad("sub-indices", sorted(v["sub"] for v in obj["vars"]), sorted(o.subindices))
                continue
            for v in obj["vars"]:
                m = o[v["sub"]]
                for how, got in (("dotted", look(od, f"{obj['name']}.{v['name']}")), ("by-name", look(o, v["name"]))):
                    if got is not m:
                        bad("parent-child-lookup", v["name"], got if isinstance(got, str) else "different object")
                members.append((m, v, True))
        else:
            t = obj["vars"][0]
            if o[0].data_type != 5:
                bad("compact-sub0", 5, o[0].data_type)
            for k in range(1, obj["n"] + 1):
                try:
                    m = o[k]
                except Exception as e:  # noqa: BLE001
                    bad("compact-member-missing", k, repr(e)[:80])
                    continue
                nm = obj["names"][k - 1] if kind == "compact-named" else None
                tv = dict(t, sub=k, name=nm)
                if kind == "compact" and k > 1:
                    # CiA 306 keeps per-member parameter values of a compact array in a separate [xxxxValue] section; the
                    # template's ParameterValue and the $NODEID flag of generated members are not part of the statement
                    tv["value"] = None
                    tv["_generated"] = True
                members.append((m, tv, nm is not None))
                if nm is not None and look(od, f"{obj['name']}.{nm}") is not look(o, k):
                    got = look(od, f"{obj['name']}.{nm}")
                    # compact members are generated per access: compare what is reached, not identity
                    if isinstance(got, str) or got.subindex != k:
                        bad("compact-name-lookup", k, got if isinstance(got, str) else got.subindex)
        for m, v, check_name in members:
            if check_name and m.name != v["name"]:
                bad("member-name", v["name"], m.name)
            if (m.index, m.subindex) != (obj["index"], v["sub"]):
                bad("address", (obj["index"], v["sub"]), (m.index, m.subindex))
            if m.data_type != v["type"]:
                bad("data-type", v["type"], m.data_type)
            if m.access_type != v["access"]:
                bad("access-type", v["access"], m.access_type)
            if bool(m.pdo_mappable) != bool(v.get("pdo")) or not isinstance(m.pdo_mappable, bool):
                bad("pdo-mappable", bool(v.get("pdo")), m.pdo_mappable)
            for attr, key in (("default", "default"), ("value", "value")):
                spec = v.get(key)
                if spec is not None and spec[0] == "rel" and node_id is None:
                    continue
                if key == "value" and (doc["doc_type"] != "dcf" or v.get("_generated")):
                    continue
                exp = expected_value(spec, node_id)
                got = getattr(m, attr)
                if got != exp or (exp is not None and isinstance(exp, float) != isinstance(got, float)):
                    bad(f"{attr}:{'relative' if spec and spec[0] == 'rel' else 'absolute'}", exp, got)
            if v.get("default") is not None and not v.get("_generated") and m.relative != (v["default"][0] == "rel"):
                bad("relative-flag", v["default"][0] == "rel", m.relative)
            if m.min != v.get("low"):
                bad(f"low-limit:w{W.SIGNED_WIDTH.get(v['type'], W.UNSIGNED_WIDTH.get(v['type']))}:"
                    f"{'signed' if v['type'] in W.SIGNED_WIDTH else 'real' if v['type'] in W.REAL else 'unsigned'}",
                    v.get("low"), m.min)
            if m.max != v.get("high"):
                bad(f"high-limit:w{W.SIGNED_WIDTH.get(v['type'], W.UNSIGNED_WIDTH.get(v['type']))}:"
                    f"{'signed' if v['type'] in W.SIGNED_WIDTH else 'real' if v['type'] in W.REAL else 'unsigned'}",
                    v.get("high"), m.max)
    # document level
    if od.node_id != node_id and (doc.get("node_id") is not None or doc.get("baudrate") is not None):
        bad("node-id", node_id, od.node_id)
    if doc.get("baudrate") is not None and od.bitrate != doc["baudrate"] * 1000:
        bad("bitrate", doc["baudrate"] * 1000, od.bitrate)
    if doc.get("comments") is not None and od.comments != "\n".join(doc["comments"]):
        bad("comments", "\n".join(doc["comments"]), od.comments)
    return ok


def import_text(text, suffix, node_arg):
    import canopen
    f = io.StringIO(text)
    f.name = "x." + suffix
    return canopen.import_od(f, node_arg)


def run_product(case, st):
    kind, t = case["kind"], case["type"]
    rot = (case.get("seed", 0) + t + KINDS.index(kind)) % 12
    combos = []
    for di, dname in enumerate(DEFAULTS):
        for li, lname in enumerate(LIMITS):
            if type_range(t) is None and (lname != "none" or dname.startswith("rel")):
                real_limits = t in W.REAL and lname != "none" and not dname.startswith("rel")
                if not (lname == "none" and dname == "rel0") and not real_limits:
                    continue
            if case["full"]:
                for ai, access in enumerate(ACCESS):
                    for vm in ("absent", "abs", "rel"):
                        for ns in NODE_SRC:
                            combos.append((dname, lname, rot + di + li, ai + di, vm, access, ns))
            else:
                r2 = rot + di * 7 + li
                combos.append((dname, lname, r2, r2, ("absent", "abs", "rel")[r2 % 3], ACCESS[r2 % 6], NODE_SRC[r2 % 4]))
    if "combo" in case:
        combos = [tuple(case["combo"])]
    for combo in combos:
        dname, lname, r2, srot, vm, access, ns = combo
        doc, style, node_arg = build_doc(kind, t, dname, lname, r2, srot, vm, access, ns)
        text = W.write(doc, style)
        st.evaluations += 1
        rc = dict(case, combo=list(combo))
        if dname != "absent" or lname != "none" or kind not in ("var",) or style["number"] != "dec":
            st.nontrivial_n += 1
        try:
            od = import_text(text, doc["doc_type"], node_arg)
        except Exception as e:  # noqa: BLE001
            st.violation(f"C08:import-raises:{type(e).__name__}:{kind}", rc, "dictionary imported", repr(e)[:150])
            continue
        sigp = kind if kind in ("compact", "compact-named") else ("struct" if kind in ("record", "array") else "var")
        if compare(od, doc, node_arg, st, rc, sigp):
            st.outcome("document ok")
    st.sample({"kind": kind, "type": t, "documents": len(combos)}, cap=3)


DEVICE_INFO = {"VendorName": ("vendor_name", "ACME Inc"), "VendorNumber": ("vendor_number", 0x1234), "ProductName": ("product_name", "Widget 3000"),
               "ProductNumber": ("product_number", 77), "RevisionNumber": ("revision_number", 0x00010002), "OrderCode": ("order_code", "W-3000/A"),
               "SimpleBootUpMaster": ("simple_boot_up_master", False), "SimpleBootUpSlave": ("simple_boot_up_slave", True),
               "Granularity": ("granularity", 8), "DynamicChannelsSupported": ("dynamic_channels_supported", False),
               "GroupMessaging": ("group_messaging", False), "NrOfRXPDO": ("nr_of_RXPDO", 4), "NrOfTXPDO": ("nr_of_TXPDO", 12),
               "LSS_Supported": ("LSS_supported", True)}


def run_document(case, st):
    import canopen
    # every DeviceInfo key, one at a time and all together; every subset of allowed bit rates of size <= 2
    rates = [10, 20, 50, 125, 250, 500, 800, 1000]
    variants = [dict([(k, v[1])]) for k, v in DEVICE_INFO.items()] + [{k: v[1] for k, v in DEVICE_INFO.items()}]
    for info in variants:
        for rs in [()] + [(r,) for r in rates] + [(125, 1000)]:
            di = {k: (int(v) if isinstance(v, bool) else v) for k, v in info.items()}
            for r in rates:
                di["BaudRate_%d" % r] = 1 if r in rs else 0
            doc = {"doc_type": "eds", "node_id": None, "baudrate": None, "comments": ["c"], "device_info": di,
                   "objects": [{"kind": "var", "index": 0x1000, "name": "Device type",
                                "vars": [{"sub": 0, "name": "Device type", "type": 7, "access": "ro", "pdo": 0, "default": ("abs", 1)}]}]}
            st.evaluations += 1
            st.nontrivial_n += 1
            od = import_text(W.write(doc, {"number": "hex"}), "eds", None)
            for k, v in info.items():
                attr, val = DEVICE_INFO[k]
                got = getattr(od.device_information, attr)
                if got != val or type(got) is not type(val):
                    st.violation(f"C08:device-info:{k}", dict(case, key=k), repr(val), repr(got))
            if od.device_information.allowed_baudrates != {r * 1000 for r in rs}:
                st.violation("C08:device-info:baudrates", dict(case, rates=list(rs)), {r * 1000 for r in rs},
                             od.device_information.allowed_baudrates)
    # suffix dispatch on real files, and stream names
    text = W.write({"doc_type": "dcf", "node_id": 12, "baudrate": 125, "comments": [], "device_info": {"VendorName": "V"},
                    "objects": [{"kind": "var", "index": 0x2000, "name": "cob",
                                 "vars": [{"sub": 0, "name": "cob", "type": 7, "access": "rw", "pdo": 1, "default": ("rel", 0x180)}]}]},
                   {"number": "hex"})
    d = tempfile.mkdtemp(prefix="c08-", dir="/var/tmp")
    try:
        for suf in (".eds", ".EDS", ".dcf", ".Dcf"):
            p = os.path.join(d, "f" + suf)
            with open(p, "w") as f:
                f.write(text)
            st.evaluations += 1
            try:
                od = canopen.import_od(p)
                if od[0x2000].default != 0x18C or od.node_id != 12 or od.bitrate != 125000:
                    st.violation("C08:file-import", dict(case, suffix=suf), (0x18C, 12, 125000), (od[0x2000].default, od.node_id, od.bitrate))
                # history: the application changes the dictionary it got, then imports the same (unchanged) file again,
                # with the same and with another node id: every import describes the file
                od[0x2000].default = 1
                od.bitrate = 1
                od.comments = "edited"
                del od[0x2000]
                for nid, want in ((None, 0x18C), (12, 0x18C), (3, 0x183), (None, 0x18C)):
                    st.evaluations += 1
                    od2 = canopen.import_od(p, nid)
                    if od2 is od or 0x2000 not in od2 or od2[0x2000].default != want or od2.bitrate != 125000 or od2.comments == "edited":
                        st.violation("C08:file-import:second-import-of-the-same-file", dict(case, suffix=suf, node_id=nid),
                                     (hex(want), 125000), "same object" if od2 is od else
                                     (0x2000 in od2 and od2[0x2000].default, od2.bitrate, od2.comments))
                        break
                    od2[0x2000].default = 2
            except Exception as e:  # noqa: BLE001
                st.violation(f"C08:file-import-raises:{type(e).__name__}", dict(case, suffix=suf), "imported", repr(e)[:100])
    finally:
        import shutil
        shutil.rmtree(d, ignore_errors=True)
    st.outcome("document-level ok")


def run_pairs(case, st):
    """All ordered pairs of object kinds in one document (distinct names and indexes)."""
    for (ka, kb) in itertools.product(KINDS, repeat=2):
        da, sa, _ = build_doc(ka, 6, "max", "both", 1, 1, "absent", "rw", "file")
        db, sb, _ = build_doc(kb, 3, "min", "both-hex", 2, 2, "absent", "ro", "file")
        oa, ob = da["objects"][0], db["objects"][0]
        oa.update(index=0x2100, name="First Object")
        ob.update(index=0x2101, name="Second Object")
        for v in ob["vars"]:
            if v["name"] == "The Entry":
                v["name"] = "Entry Two"
        doc = dict(da, objects=[oa, ob])
        st.evaluations += 1
        st.nontrivial_n += 1
        rc = dict(case, kinds=[ka, kb])
        try:
            od = import_text(W.write(doc, dict(sa, limit_hex=False)), "eds", None)
        except Exception as e:  # noqa: BLE001
            st.violation(f"C08:pair-import-raises:{type(e).__name__}", rc, "imported", repr(e)[:120])
            continue
        # limits of the second object were written in decimal here (one style per document)
        compare(od, doc, None, st, rc, "pair")
        if sorted(od) != [0x2100, 0x2101]:
            st.violation("C08:pair:objects", rc, [0x2100, 0x2101], sorted(od))
    st.outcome("pairs ok")


def run_case(case, st):
    {"product": run_product, "document": run_document, "pairs": run_pairs}[case["part"]](case, st)


def finish(st, tier):
    if st.outcomes.get("document ok", 0) < 3000 and not st.violations:
        raise simenv.HarnessError("fewer documents than the stated product")
