"""C09 — saving a PDO configuration follows the safe procedure and reads back identically.

Enumeration of configurations x prior device states x PDO numbers: a real RemoteNode whose SDO
transport is a strict PDO parameter device (mc/refs/pdo_device.py) saves the configuration; the
write log is judged against the four ordering rules and the CiA 301 encodings; a fresh
RemoteNode on a fresh Network reads the device back.
"""
import itertools
import struct

from mc import simenv
from mc.refs.pdo_device import StrictPdoDevice

ID = "C09"
LEVEL = "model_checking"
EXHAUSTIVE = True
RULE = ("product of PDO kind/number {RPDO,TPDO} x {1,4,5,512} x optional sub-entries present {3+5+6, none, 5+6 only (gap), 3 "
        "only} x prior device state {blank+invalid, valid with 1 other mapping, valid with 8 mappings} x COB-ID {0x181, 0x7FF, "
        "0x800, 0x1FFFFFFF, 1} x enabled x rtr_allowed x transmission type {0,1,240,252,253,254,255} x timers {absent, 0, max} "
        "x mapping {sequences of length <= 2 over 3 objects, 64-bit object, 8 x 8 bits, empty}; source: live device, "
        "dictionary values (DCF), dictionary defaults; history: save, modify, save again; save refused by the device at its "
        "k-th write (every k) and repeated unchanged; node level (node.pdo/rpdo/tpdo "
        ".save over 8 maps): every map x every mapping incl. empty x enabled/disabled over three prior-state assignments. state = (configuration, device "
        "state, write step); non-trivial = cases with a valid prior device state or a second save")
ASSUMPTIONS = [
    "the strict device refuses: mapping/communication writes while valid, entry writes while count != 0, count beyond the written entries or > 64 bits, COB-ID change while valid",
    "bit 29 (frame format) of the COB-ID entry is not part of the statement and is not demanded",
    "on the saving node only 'enabled => subscribed' is demanded; 'exactly when' is judged on the fresh node that reads back",
]
OBJS = [(0x2000, 0, 8), (0x2001, 0, 16), (0x2002, 0, 32)]
BIG = (0x2003, 0, 64)
COMS = (0x1400, 0x1403, 0x1404, 0x15FF, 0x1800, 0x1803, 0x1804, 0x19FF)
_ODS = {}


def mkod(subs, values=None, defaults=None):
    from canopen.objectdictionary import ODArray, ODRecord, ODVariable, ObjectDictionary, datatypes as dt
    key = (tuple(subs), repr(values), repr(defaults))
    if key in _ODS:
        return _ODS[key]
    od = ObjectDictionary()
    for (i, s, l), t in zip(OBJS + [BIG] + STRS, (dt.UNSIGNED8, dt.INTEGER16, dt.UNSIGNED32, dt.UNSIGNED64, dt.OCTET_STRING,
                                                  dt.VISIBLE_STRING, dt.DOMAIN)):
        v = ODVariable("obj%x" % i, i)
        v.data_type = t
        v.pdo_mappable = True
        od.add_object(v)
    for base in COMS:
        r = ODRecord("com%x" % base, base)
        lst = [(0, "n", dt.UNSIGNED8), (1, "cob", dt.UNSIGNED32), (2, "tt", dt.UNSIGNED8)]
        names = {3: ("inh", dt.UNSIGNED16), 5: ("evt", dt.UNSIGNED16), 6: ("sync", dt.UNSIGNED8)}
        lst += [(s, names[s][0], names[s][1]) for s in subs]
        for s, n, t in lst:
            v = ODVariable(n, base, s)
            v.data_type = t
            if values and (base, s) in values:
                v.value = values[(base, s)]
            if defaults and (base, s) in defaults:
                v.default = defaults[(base, s)]
            r.add_member(v)
        od.add_object(r)
        a = ODArray("map%x" % (base + 0x200), base + 0x200)
        for s in range(0, 9):
            v = ODVariable("m%d" % s, base + 0x200, s)
            v.data_type = dt.UNSIGNED8 if s == 0 else dt.UNSIGNED32
            if values and (base + 0x200, s) in values:
                v.value = values[(base + 0x200, s)]
            if defaults and (base + 0x200, s) in defaults:
                v.default = defaults[(base + 0x200, s)]
            a.add_member(v)
        od.add_object(a)
    _ODS[key] = od
    return od


# objects without a fixed size (strings, domain) mapped with an explicit bit length
STRS = [(0x2004, 0, 48), (0x2005, 0, 64), (0x2006, 0, 24)]
MAPPINGS = [[]] + [[o] for o in OBJS] + [[a, b] for a in OBJS for b in OBJS] + [[BIG]] + [[OBJS[0]] * 8] + \
           [[STRS[0]], [STRS[1]], [STRS[2], OBJS[0], OBJS[2]], [OBJS[1], STRS[0]]]
SUBSETS = {"all": (3, 5, 6), "none": (), "gap": (5, 6), "only3": (3,)}


def bounds(tier):
    return {"pdo_numbers": [1, 4, 5, 512], "mappings": len(MAPPINGS), "full_mapping_product": "for (cob,tt)=(0x181,255) and blank/tt in (0,254); first 3 mappings elsewhere"
            if tier == "quick" else "all mappings everywhere"}


def cases(tier, seed):
    out = []
    for subs in SUBSETS:
        for kind, num in (("tpdo", 1), ("tpdo", 4), ("tpdo", 5), ("tpdo", 512), ("rpdo", 1), ("rpdo", 512)):
            if tier == "quick" and subs in ("gap", "only3") and num not in (1, 512):
                continue
            for prior in ("blank", "valid1", "valid8"):
                out.append({"part": "live", "subs": subs, "kind": kind, "num": num, "prior": prior, "full": tier == "thorough"})
    for subs in SUBSETS:
        for src in ("values", "defaults", "values-over-defaults"):
            out.append({"part": "from-od", "subs": subs, "src": src})
    for subs in ("all", "gap"):
        out.append({"part": "history", "subs": subs})
    for prior in ("blank", "valid1", "valid8"):
        for kind in ("tpdo", "rpdo"):
            out.append({"part": "save-retry", "subs": "all", "kind": kind, "prior": prior})
    out.append({"part": "save-retry", "subs": "none", "kind": "tpdo", "prior": "valid1"})
    for subs in SUBSETS:
        for rm in range(0, len(MAPPINGS), 1 if tier == "thorough" else 3):
            out.append({"part": "node-level", "subs": subs, "rots": [[rm, 0], [rm, 1]], "loadcfg": rm == 0})
    k = seed % len(out)
    return out[k:] + out[:k]


def mknode(od, dev):
    import canopen
    net = canopen.Network()
    simenv.new_world()
    bus = simenv.SimBus("inline")
    bus.attach(net, "net")
    n = canopen.RemoteNode(5, od)
    net.add_node(n)
    n.sdo.upload = dev.upload
    n.sdo.download = dev.download
    return net, n


def ordering_problems(dev, com, mapi, enabled, n_map):
    """The four ordering rules + 'validated last and only if enabled', from the write log alone."""
    log = dev.log
    probs = []
    if not log:
        return ["nothing written"]
    i0, s0, d0, was_valid, _ = log[0]
    if (i0, s0) != (com, 1) or not struct.unpack("<L", d0)[0] & 0x80000000:
        probs.append("first write is not the invalidating COB-ID write")
    seen_count0 = False
    last_entry_at = -1
    count_set_at = None
    for k, (i, s, d, valid, count) in enumerate(log):
        if valid and not (i == com and s == 1):
            probs.append(f"write to {i:04X}:{s} while the PDO is valid")
        if i == mapi and s == 0 and d[0] == 0:
            seen_count0 = True
        if i == mapi and s >= 1:
            last_entry_at = k
            if not seen_count0:
                probs.append("mapping entry written before the count was zeroed")
            if count != 0:
                probs.append("mapping entry written while count != 0")
        if i == mapi and s == 0 and d[0] > 0:
            count_set_at = k
    if n_map and (count_set_at is None or count_set_at < last_entry_at):
        probs.append("count not set after the entries")
    validating = [k for k, (i, s, d, v, c) in enumerate(log) if (i, s) == (com, 1) and not struct.unpack("<L", d)[0] & 0x80000000]
    if enabled:
        if validating != [len(log) - 1]:
            probs.append("validation is not the single last write")
    elif validating:
        probs.append("PDO validated although not enabled")
    return probs


def _od_vars(od):
    from canopen.objectdictionary import ODVariable
    for o in od.values():
        if isinstance(o, ODVariable):
            yield o
        else:
            for v in o.values():
                yield v


def _od_snapshot(od):
    return [(v.index, v.subindex, v.value, v.default, getattr(v, "value_raw", None)) for v in _od_vars(od)]


def _od_restore(od, snap):
    for v, (_, _, val, dfl, raw) in zip(_od_vars(od), snap):
        v.value, v.default = val, dfl


def one_save(case, st, od, dev, kind, num, com, mapi, cfg, rc, read_first=True, node=None, reconfigure=True):
    cob, enabled, rtr, tt, timers, mp = cfg
    if node is None:
        net, n = mknode(od, dev)
    else:
        net, n = node
    m = getattr(n, kind)[num]
    st.evaluations += 1
    st.states += 1
    try:
        if read_first:
            snap = _od_snapshot(od)
            m.read()
            if _od_snapshot(od) != snap:
                # the dictionary is the caller's (its values are what read(from_od=True) / load_configuration use)
                diff = [(a, b) for a, b in zip(snap, _od_snapshot(od)) if a != b][:2]
                st.violation("C09:read-changed-the-object-dictionary", rc, "dictionary untouched by read()", diff)
                _od_restore(od, snap)
                return None
        dev.log.clear()
        if reconfigure:
            m.cob_id, m.enabled, m.rtr_allowed, m.trans_type = cob, enabled, rtr, tt
            m.inhibit_time, m.event_timer, m.sync_start_value = timers
            m.clear()
            for (i, s, l) in mp:
                m.add_variable(i, s, l)
        m.save()
    except Exception as e:  # noqa: BLE001
        st.violation(f"C09:save-raises:{type(e).__name__}:{(dev.refused[-1:] or [[0, 0, 0, 'no refusal']])[0][3]}", rc,
                     "configuration saved", repr(e)[:100] + f" refused={dev.refused[-1:]}")
        return None
    st.transitions += len(dev.log)
    if dev.refused:
        st.violation(f"C09:device-refused:{dev.refused[0][3]}", rc, "no out-of-order write", dev.refused[0])
    for p in ordering_problems(dev, com, mapi, enabled, len(mp))[:1]:
        st.violation(f"C09:order:{p}", rc, "invalidate, zero count, entries, count, validate", [(hex(i), s, d.hex()) for i, s, d, v, c in dev.log])
    w1 = [d for (i, si, d, v, c) in dev.log if (i, si) == (com, 1)]
    if w1 and struct.unpack("<L", w1[0])[0] & 0xDFFFFFFF != (cob | 0x80000000 | (0 if rtr else 0x40000000)):
        st.violation("C09:encoding:first-cob-write", rc, hex(cob | 0x80000000 | (0 if rtr else 0x40000000)), w1[0].hex())
    final = struct.unpack("<L", dev.store[(com, 1)])[0] & 0xDFFFFFFF
    if final != (cob | (0 if enabled else 0x80000000) | (0 if rtr else 0x40000000)):
        st.violation("C09:encoding:final-cob", rc, hex(cob | (0 if enabled else 0x80000000) | (0 if rtr else 0x40000000)), hex(final))
    if dev.store[(com, 2)] != bytes([tt]):
        st.violation("C09:encoding:trans-type", rc, tt, dev.store[(com, 2)].hex())
    for s_, val in zip((3, 5, 6), timers):
        if val is not None and (com, s_) in dev.store:
            want = struct.pack("<B" if s_ == 6 else "<H", val)
            if dev.store[(com, s_)] != want:
                st.violation(f"C09:encoding:sub{s_}", rc, want.hex(), dev.store[(com, s_)].hex())
    if dev.store[(mapi, 0)][0] != len(mp):
        st.violation("C09:encoding:count", rc, len(mp), dev.store[(mapi, 0)][0])
    for k, (i, s, l) in enumerate(mp, 1):
        if struct.unpack("<L", dev.store[(mapi, k)])[0] != (i << 16 | s << 8 | l):
            st.violation("C09:encoding:mapping-entry", rc, hex(i << 16 | s << 8 | l), dev.store[(mapi, k)].hex())
            break
    if enabled and not any(getattr(c, "__self__", None) is m for c in net.subscribers.get(cob, [])):
        st.violation("C09:saving-node-not-subscribed", rc, "subscribed to the COB-ID", "not subscribed")
    # read back on a fresh node object on a fresh network
    net2, n2 = mknode(od, dev)
    m2 = getattr(n2, kind)[num]
    try:
        m2.read()
    except Exception as e:  # noqa: BLE001
        st.violation(f"C09:readback-raises:{type(e).__name__}", rc, "configuration read", repr(e)[:100])
        return (net, n)
    got = (m2.cob_id, m2.enabled, m2.rtr_allowed, m2.trans_type, [(v.index, v.subindex, v.length) for v in m2.map])
    exp = (cob, enabled, rtr, tt, [tuple(x) for x in mp])
    if got != exp:
        st.violation("C09:readback-differs", rc, exp, got)
    if tt >= 254:
        for name, s_, val in (("inhibit_time", 3, timers[0]), ("event_timer", 5, timers[1]), ("sync_start_value", 6, timers[2])):
            if val is not None and (com, s_) in dev.store and getattr(m2, name) != val:
                st.violation(f"C09:readback-timer:{name}", rc, val, getattr(m2, name))
    sub = any(getattr(c, "__self__", None) is m2 for c in net2.subscribers.get(cob, []))
    if sub != enabled:
        st.violation("C09:fresh-node-subscription", rc, f"subscribed == {enabled}", sub)
    st.outcome("saved+readback ok")
    return (net, n)


def run_live(case, st):
    import canopen
    subs = SUBSETS[case["subs"]]
    od = mkod(subs)
    kind, num, prior = case["kind"], case["num"], case["prior"]
    com = (0x1800 if kind == "tpdo" else 0x1400) + num - 1
    mapi = com + 0x200
    timer_sets = [(None, None, None), (0, 0, 0), (0xFFFF, 0xFFFF, 0xFF)]
    combos = []
    for cob in (0x181, 0x7FF, 0x800, 0x1FFFFFFF, 1):
        for enabled, rtr in itertools.product((True, False), repeat=2):
            for tt in (0, 1, 240, 252, 253, 254, 255):
                for timers in timer_sets:
                    timers = tuple(t if s_ in subs else None for t, s_ in zip(timers, (3, 5, 6)))
                    full = case["full"] or (cob, tt) == (0x181, 255) or (prior == "blank" and tt in (0, 254))
                    for mp in (MAPPINGS if full else MAPPINGS[:3]):
                        combos.append((cob, enabled, rtr, tt, timers, mp))
    if "cfg" in case:
        c = case["cfg"]
        combos = [(c[0], c[1], c[2], c[3], tuple(c[4]), [tuple(x) for x in c[5]])]
    seen = set()
    for cfg in combos:
        key = repr(cfg)
        if key in seen:
            continue
        seen.add(key)
        dev = StrictPdoDevice(com, mapi, subs, prior, abort_cls=canopen.SdoAbortedError)
        rc = dict(case, cfg=[cfg[0], cfg[1], cfg[2], cfg[3], list(cfg[4]), [list(x) for x in cfg[5]]])
        one_save(case, st, od, dev, kind, num, com, mapi, cfg, rc)
        if prior != "blank":
            st.nontrivial_n += 1
    st.sample({"case": case, "configurations": len(seen)}, cap=3)


def run_from_od(case, st):
    """Configuration taken from the dictionary (DCF values, then defaults), then saved to a blank device."""
    import canopen
    subs = SUBSETS[case["subs"]]
    com, mapi = 0x1800, 0x1A00
    for cob, enabled, rtr, tt in itertools.product((0x181, 0x7FF), (True, False), (True, False), (1, 254, 255)):
        for mp in (MAPPINGS[1:2] + MAPPINGS[5:6] + MAPPINGS[-1:] + MAPPINGS[:1]):
            cobval = cob | (0 if enabled else 0x80000000) | (0 if rtr else 0x40000000)
            vals = {(com, 1): cobval, (com, 2): tt, (mapi, 0): len(mp)}
            for s_, tv in zip((3, 5, 6), (100, 200, 3)):
                if s_ in subs:
                    vals[(com, s_)] = tv
            for k, (i, s, l) in enumerate(mp, 1):
                vals[(mapi, k)] = i << 16 | s << 8 | l
            wrong = {k: (0x80000000 | 0x333 if k == (com, 1) else 0) for k in vals}
            if case["src"] == "values":
                od = mkod(subs, values=vals)
            elif case["src"] == "defaults":
                od = mkod(subs, defaults=vals)
            else:
                od = mkod(subs, values=vals, defaults=wrong)
            dev = StrictPdoDevice(com, mapi, subs, "valid1", abort_cls=canopen.SdoAbortedError)
            net, n = mknode(od, dev)
            m = n.tpdo[1]
            rc = dict(case, cob=cob, enabled=enabled, rtr=rtr, tt=tt, mp=[list(x) for x in mp])
            st.evaluations += 1
            st.nontrivial_n += 1
            try:
                m.read(from_od=True)
            except Exception as e:  # noqa: BLE001
                st.violation(f"C09:from-od:read-raises:{type(e).__name__}", rc, "configuration from the dictionary", repr(e)[:100])
                continue
            got = (m.cob_id, m.enabled, m.rtr_allowed, m.trans_type, [(v.index, v.subindex, v.length) for v in m.map])
            exp = (cob, enabled, rtr, tt, [tuple(x) for x in mp])
            if got != exp:
                st.violation(f"C09:from-od:differs:{case['src']}", rc, exp, got)
                continue
            timers = (m.inhibit_time, m.event_timer, m.sync_start_value)
            want_t = tuple((tv if (s_ in subs and tt >= 254) else None) for s_, tv in zip((3, 5, 6), (100, 200, 3)))
            if timers != want_t:
                st.violation(f"C09:from-od:timers:{case['subs']}", rc, want_t, timers)
                continue
            one_save(case, st, od, dev, "tpdo", 1, com, mapi, (cob, enabled, rtr, tt, timers, mp), rc, read_first=False, node=(net, n))
    st.sample({"case": case})


def run_history(case, st):
    """save, modify, save again on the same node object."""
    import canopen
    subs = SUBSETS[case["subs"]]
    od = mkod(subs)
    com, mapi = 0x1800, 0x1A00
    cfgs = []
    for cob, enabled, tt in itertools.product((0x181, 0x7FF), (True, False), (1, 255)):
        for mp in (MAPPINGS[0], MAPPINGS[6]):
            for tv in (7, 0):
                timers = tuple(tv if s_ in subs else None for s_ in (3, 5, 6))
                cfgs.append((cob, enabled, True, tt, timers, mp))
    for a, b in itertools.permutations(cfgs, 2):
        dev = StrictPdoDevice(com, mapi, subs, "blank", abort_cls=canopen.SdoAbortedError)
        rc = dict(case, first=[a[0], a[1], a[3], [list(x) for x in a[5]]], second=[b[0], b[1], b[3], [list(x) for x in b[5]]])
        node = one_save(case, st, od, dev, "tpdo", 1, com, mapi, a, dict(rc, step=1))
        if node is None:
            continue
        st.nontrivial_n += 1
        one_save(case, st, od, dev, "tpdo", 1, com, mapi, b, dict(rc, step=2), read_first=False, node=node)
    st.sample({"case": case, "pairs": len(cfgs) * (len(cfgs) - 1)})


class MultiDevice:
    """All eight PDOs of the dictionary, each a strict device."""

    def __init__(self, subs, abort_cls, priors):
        self.devs = {}
        for i, com in enumerate(COMS):
            self.devs[com] = StrictPdoDevice(com, com + 0x200, subs, priors[i % len(priors)], abort_cls=abort_cls)

    def _dev(self, index):
        com = index if index in self.devs else index - 0x200
        if com not in self.devs:
            raise KeyError(index)
        return self.devs[com]

    def upload(self, i, si):
        return self._dev(i).upload(i, si)

    def download(self, i, si, data, force_segment=False):
        return self._dev(i).download(i, si, data, force_segment)


def run_node_level(case, st):
    """node.pdo / node.rpdo / node.tpdo read() and save() over all maps of a node."""
    import canopen
    subs = SUBSETS[case["subs"]]
    od = mkod(subs)
    rots = case["rots"]
    for which, priors, (rotm, rote) in itertools.product(("pdo", "rpdo", "tpdo"), (("blank",), ("valid1", "blank", "valid8"), ("valid8", "valid1")), rots):
        if True:
            dev = MultiDevice(subs, canopen.SdoAbortedError, priors)
            net, n = mknode(od, dev)
            st.evaluations += 1
            st.nontrivial_n += 1
            rc = dict(case, which=which, priors=list(priors), rots=[[rotm, rote]])
            coll = getattr(n, which)
            try:
                coll.read()
                maps = list(n.rpdo.values()) + list(n.tpdo.values()) if which == "pdo" else list(coll.values())
                want = {}
                for k, m in enumerate(maps):
                    com = m.com_record.od.index
                    m.cob_id, m.enabled, m.rtr_allowed, m.trans_type = 0x200 + k * 3, bool((k + rote) % 2), bool(k % 3), (1, 254, 255)[k % 3]
                    m.clear()
                    mp = MAPPINGS[(k + rotm) % len(MAPPINGS)]     # includes the empty mapping on every map for some rotation
                    for (i, s, l) in mp:
                        m.add_variable(i, s, l)
                    want[com] = (m.cob_id, m.enabled, m.rtr_allowed, m.trans_type, [tuple(x) for x in mp])
                for d in dev.devs.values():
                    d.log.clear()
                coll.save()
            except Exception as e:  # noqa: BLE001
                st.violation(f"C09:node-level:{which}:raises:{type(e).__name__}", rc, "all maps saved", repr(e)[:120])
                continue
            for com, w in want.items():
                d = dev.devs[com]
                if d.refused:
                    st.violation(f"C09:node-level:{which}:device-refused:{d.refused[0][3]}", dict(rc, com=com), "no out-of-order write", d.refused[0])
                for pr in ordering_problems(d, com, com + 0x200, w[1], len(w[4]))[:1]:
                    st.violation(f"C09:node-level:{which}:order:{pr}", dict(rc, com=com), "safe order", [(hex(i), s_, x.hex()) for i, s_, x, v, c in d.log])
            for com, d in dev.devs.items():
                if com not in want and d.log:
                    st.violation(f"C09:node-level:{which}:wrote-other-direction", dict(rc, com=com), "untouched", len(d.log))
            net2, n2 = mknode(od, dev)
            getattr(n2, which).read()
            maps2 = list(n2.rpdo.values()) + list(n2.tpdo.values()) if which == "pdo" else list(getattr(n2, which).values())
            got = {m.com_record.od.index: (m.cob_id, m.enabled, m.rtr_allowed, m.trans_type, [(v.index, v.subindex, v.length) for v in m.map])
                   for m in maps2}
            if got != want:
                diff = {hex(k): (want[k], got.get(k)) for k in want if got.get(k) != want[k]}
                st.violation(f"C09:node-level:{which}:readback-differs", rc, "same configuration for every map", diff)
            else:
                st.outcome("node-level ok")
    if not case.get("loadcfg"):
        return
    # RemoteNode.load_configuration(): PDO configuration from the dictionary is applied through read(from_od)+save()
    vals = {}
    for k, com in enumerate(COMS):
        vals[(com, 1)] = (0x300 + k) | (0x80000000 if k % 2 else 0)
        vals[(com, 2)] = 255
        vals[(com + 0x200, 0)] = 1
        vals[(com + 0x200, 1)] = OBJS[k % 3][0] << 16 | OBJS[k % 3][2]
    od2 = mkod(subs, values=vals)
    dev = MultiDevice(subs, canopen.SdoAbortedError, ("valid1", "blank"))
    net, n = mknode(od2, dev)
    st.evaluations += 1
    try:
        n.load_configuration()
        for k, com in enumerate(COMS):
            d = dev.devs[com]
            final = struct.unpack("<L", d.store[(com, 1)])[0] & 0xDFFFFFFF
            if final != vals[(com, 1)] or struct.unpack("<L", d.store[(com + 0x200, 1)])[0] != vals[(com + 0x200, 1)] or d.refused:
                st.violation("C09:load-configuration", dict(case, com=com), hex(vals[(com, 1)]), f"{final:#x} refused={d.refused[:1]}")
                break
        else:
            st.outcome("load_configuration ok")
    except Exception as e:  # noqa: BLE001
        st.violation(f"C09:load-configuration:raises:{type(e).__name__}", case, "configuration loaded", repr(e)[:120])


def run_save_retry(case, st):
    """save() is refused by the device at its k-th write (every k); the application calls save() again on the same,
    untouched PdoMap: the second save must follow the safe procedure and the device must end up with the configuration."""
    import canopen
    subs = SUBSETS[case["subs"]]
    od = mkod(subs)
    kind, prior = case["kind"], case["prior"]
    com = 0x1800 if kind == "tpdo" else 0x1400
    mapi = com + 0x200
    cfgs = [(0x181, True, True, 255, (None, None, None), MAPPINGS[4]), (0x7FF, True, False, 1, (0, 0, 0), MAPPINGS[1]),
            (0x181, False, True, 254, (None, None, None), MAPPINGS[2]), (0x1FFFFFFF, True, True, 255, (0xFFFF, 0xFFFF, 0xFF), [BIG]),
            (0x181, True, True, 255, (None, None, None), [])]
    if "cfg" in case:
        c = case["cfg"]
        cfgs = [(c[0], c[1], c[2], c[3], tuple(c[4]), [tuple(x) for x in c[5]])]
    for cfg in cfgs:
        cob, enabled, rtr, tt, timers, mp = cfg
        timers = tuple(t if s_ in subs else None for t, s_ in zip(timers, (3, 5, 6)))
        cfg = (cob, enabled, rtr, tt, timers, mp)
        for k in ([case["k"]] if "k" in case else range(1, 16)):
            dev = StrictPdoDevice(com, mapi, subs, prior, abort_cls=canopen.SdoAbortedError)
            net, n = mknode(od, dev)
            m = getattr(n, kind)[1]
            rc = dict(case, cfg=[cob, enabled, rtr, tt, list(timers), [list(x) for x in mp]], k=k)
            try:
                m.read()
                m.cob_id, m.enabled, m.rtr_allowed, m.trans_type = cob, enabled, rtr, tt
                m.inhibit_time, m.event_timer, m.sync_start_value = timers
                m.clear()
                for (i, s, l) in mp:
                    m.add_variable(i, s, l)
                dev.ndl, dev.fail_at = 0, k
                try:
                    m.save()
                    failed = False
                except canopen.SdoAbortedError:
                    failed = True
            except Exception as e:  # noqa: BLE001
                st.violation(f"C09:save-retry:first-save-raises:{type(e).__name__}", rc, "SdoAbortedError or success", repr(e)[:100])
                continue
            if not failed:
                break                      # save() has fewer than k writes: every position was covered
            st.nontrivial_n += 1
            dev.refused.clear()
            one_save(case, st, od, dev, kind, 1, com, mapi, cfg, dict(rc, retry=True), read_first=False, node=(net, n),
                     reconfigure=False)
    st.sample({"save-retry": case}, cap=3)


def run_case(case, st):
    if case["part"] == "save-retry":
        return run_save_retry(case, st)
    {"live": run_live, "from-od": run_from_od, "history": run_history, "node-level": run_node_level}[case["part"]](case, st)


def finish(st, tier):
    if st.outcomes.get("saved+readback ok", 0) < 5000 and not st.violations:
        raise simenv.HarnessError("fewer save/read-back cases than the stated enumeration")
