"""C19 — CiA 402 state decoding and commanded transitions follow the drive state machine.

Explorer A: the real BaseNode402 drives the CiA 402 drive model (mc/refs/drive402.py) behind its
SDO transport or behind real PDO maps on the SimBus; each statusword sample while an automatic
transition is pending is a choice point (fired / not yet).  Enumeration: all 65536 statuswords,
all operation modes x supported-mode masks.
"""
import itertools
import struct

from mc import kernel, simenv
from mc.refs import drive402 as D

ID = "C19"
LEVEL = "model_checking"
EXHAUSTIVE = True
RULE = ("all 8 x 8 (start, target) pairs x transport {SDO, PDO} x extra status bits {0, all non-state bits} x drive variant "
        "{stays in QUICK STOP ACTIVE, leaves it automatically}; within a case every timing of the automatic transitions with "
        "<= N 'not yet' answers at individual statusword samples; decoder: all 65536 statuswords; op mode: 10 mode names x "
        "a uniformly slow drive (every commanded transition 0.05..0.38 s, below the 0.4 s step time-out) for all pairs; "
        "all 1024 masks of the ten support bits + {0, 0xFFFFFFFF}. state = (drive state, library step); non-trivial = "
        "executions with >= 1 delayed automatic transition plus pairs needing >= 2 controlword writes")
ASSUMPTIONS = [
    "virtual time: one SDO access costs 1 ms, a TPDO arrives whenever the library waits for one",
    "the drive model follows CiA 402 table of transitions 0..16; fault reset needs a rising edge of controlword bit 7",
    "delays of an automatic transition are bounded by N statusword samples (the library's own time-outs are far larger)",
]
NONCMD = (D.NRTSO, D.FRA, D.FAULT)
OD = None


def od():
    global OD
    if OD is None:
        from canopen.objectdictionary import ODArray, ODRecord, ODVariable, ObjectDictionary, datatypes as dt
        OD = ObjectDictionary()
        for n, i, t in (("cw", 0x6040, dt.UNSIGNED16), ("sw", 0x6041, dt.UNSIGNED16), ("mode", 0x6060, dt.INTEGER8),
                        ("moded", 0x6061, dt.INTEGER8), ("sup", 0x6502, dt.UNSIGNED32)):
            v = ODVariable(n, i)
            v.data_type = t
            v.pdo_mappable = True
            OD.add_object(v)
        for com, mp in ((0x1400, 0x1600), (0x1800, 0x1A00)):
            r = ODRecord("com%X" % com, com)
            for s_, (n, t) in enumerate([("n", dt.UNSIGNED8), ("cob", dt.UNSIGNED32), ("tt", dt.UNSIGNED8)]):
                x = ODVariable(n, com, s_)
                x.data_type = t
                r.add_member(x)
            OD.add_object(r)
            a = ODArray("map%X" % mp, mp)
            for s_ in range(3):
                x = ODVariable("m%d" % s_, mp, s_)
                x.data_type = dt.UNSIGNED8 if s_ == 0 else dt.UNSIGNED32
                a.add_member(x)
            OD.add_object(a)
    return OD


def bounds(tier):
    return {"pairs": 64, "max_not_yet_answers": 30 if tier == "quick" else 60, "statuswords": 65536, "mode_masks": 1026}


def cases(tier, seed):
    out = []
    N = 30 if tier == "quick" else 60
    for transport in ("sdo", "pdo"):
        for extra in (0, D.NON_STATE_BITS):
            for lq in (False, True):
                for start in D.STATES:
                    out.append({"part": "pairs", "transport": transport, "extra": extra, "leaves_qs": lq, "start": start, "N": N})
    # a uniformly slow drive: every commanded transition takes `latency` seconds (below the library's 0.4 s per step)
    for transport in ("sdo", "pdo"):
        for lat in (0.05, 0.15, 0.25, 0.3, 0.35, 0.38):
            for start in D.STATES:
                out.append({"part": "pairs", "transport": transport, "extra": 0, "leaves_qs": False, "start": start, "N": 0,
                            "latency": lat})
    # a state assignment that FAILS (the drive does not get the controlwords for a while) and is then repeated on the same
    # node object once the drive listens again
    for transport in ("sdo", "pdo"):
        for start in D.STATES:
            out.append({"part": "retry", "transport": transport, "start": start})
    # timing attributes set by the application: the statusword TPDO has a cycle longer than the default 0.2 s wait and the
    # application raised TIMEOUT_CHECK_TPDO (on the instance / in a subclass) accordingly
    for how in ("instance", "subclass"):
        for start in D.STATES:
            out.append({"part": "slow-tpdo", "start": start, "how": how, "cycle": 0.3, "check": 1.0})
    for lo in range(0, 65536, 8192):
        out.append({"part": "decoder", "range": [lo, lo + 8192]})
    for name in D.MODE_CODES:
        out.append({"part": "opmode", "mode": name})
    k = seed % len(out)
    return out[k:] + out[:k]


def make(transport, start, ch, extra, leaves_qs, latency=0.0, tpdo_cycle=None):
    from canopen.profiles.p402 import BaseNode402
    import canopen
    simenv.new_world()
    drive = D.Drive402(start, choose=ch.choose, extra_bits=extra, leaves_quick_stop=leaves_qs, latency=latency,
                       clock=lambda: simenv.W.now)
    bus = simenv.SimBus("inline")
    net = canopen.Network()
    bus.attach(net, "master")
    node = BaseNode402(3, od())
    net.add_node(node)

    def upload(index, sub):
        simenv.W.now += 0.001
        try:
            return drive.upload(index, sub)
        except KeyError:
            raise canopen.SdoAbortedError(0x06020000)

    def download(index, sub, data, force_segment=False):
        simenv.W.now += 0.001
        try:
            return drive.download(index, sub, data)
        except KeyError:
            raise canopen.SdoAbortedError(0x06020000)
    node.sdo.upload = upload
    node.sdo.download = download
    if transport == "pdo":
        r = node.rpdo[1]
        r.cob_id, r.enabled, r.trans_type = 0x203, True, 255
        r.clear()
        r.add_variable(0x6040)
        r.add_variable(0x6060)
        t = node.tpdo[1]
        t.cob_id, t.enabled, t.trans_type = 0x183, True, 1
        t.clear()
        t.add_variable(0x6041)
        t.add_variable(0x6061)

        def dev(cid, data, remote):
            if cid == 0x203 and not remote:
                drive.controlword(struct.unpack_from("<H", data)[0])
                if len(data) >= 3:
                    drive.mode = struct.unpack_from("<b", data, 2)[0]
            return []
        bus.add_device(dev, "drive")

        def idle():
            # the library waits for the (periodic) TPDO: the drive transmits its current statusword
            if latency:
                simenv.W.now += 0.01              # a TPDO every 10 ms
            bus.inject(0x183, struct.pack("<Hb", drive.sample_statusword(), drive.mode), src_name="drive")
        if tpdo_cycle:
            # a drive with a slow TPDO cycle (virtual timer): a frame every tpdo_cycle seconds, not whenever somebody waits
            def tick():
                bus.inject(0x183, struct.pack("<Hb", drive.sample_statusword(), drive.mode), src_name="drive")
                simenv.W.at(tpdo_cycle, tick)
            tick()
            simenv.W.at(tpdo_cycle, tick)
        else:
            simenv.W.idle_hooks.append(idle)
        node.setup_402_state_machine(read_pdos=False)
        # first TPDO so that the cached statusword is the drive's start state
        node.tpdo_values[0x6041] = D.SW_BITS[start] | drive.extra
    return node, drive, bus


def one_pair(case, target, ch):
    node, drive, bus = make(case["transport"], case["start"], ch, case["extra"], case["leaves_qs"], case.get("latency", 0.0))
    t0 = simenv.W.now
    err = None
    try:
        node.state = target
    except Exception as e:  # noqa: BLE001
        err = e
    return dict(err=err, final=drive.state, trace=list(drive.trace), cws=list(drive.cws), t=simenv.W.now - t0)


def run_pairs(case, st):
    start = case["start"]
    for target in ([case["target"]] if "target" in case else D.STATES):
        if case["leaves_qs"] and target == D.QSA:
            continue

        def on_exec(ch, r):
            st.evaluations += 1
            st.states += len(r["trace"])
            st.transitions += len(r["cws"]) + len(ch.trace)
            st.traces += 1
            if ch.deviations or len(r["cws"]) >= 2:
                st.nontrivial_n += 1
            rc = dict(case, target=target, choices=ch.choices)
            tag = f"{case['transport']}"
            err = r["err"]
            if target in NONCMD:
                # cannot be commanded: refused without touching the controlword, or nothing to do because the drive is
                # (or by an automatic transition has just got) there
                if isinstance(err, ValueError) and not r["cws"]:
                    st.outcome("refused")
                elif err is None and r["final"] == target and not r["cws"]:
                    st.outcome("already there")
                elif r["cws"]:
                    st.violation(f"C19:non-commandable-target-writes-controlword:{tag}", rc, "no controlword write",
                                 [hex(c) for c in r["cws"]])
                else:
                    st.violation(f"C19:non-commandable-target-not-refused:{tag}", rc, "ValueError", f"{err!r} final={r['final']}")
                return
            if err is not None:
                st.violation(f"C19:setter-raises:{type(err).__name__}:from-{'auto' if start in (D.NRTSO, D.FRA, D.QSA) else 'stable'}"
                             f"-state:{tag}", rc, f"drive reaches {target}", f"{err!r} trace={r['trace']} cws={[hex(c) for c in r['cws']]}"[:300])
                return
            if r["final"] != target:
                st.violation(f"C19:wrong-final-state:{tag}", rc, target, f"{r['final']} trace={r['trace']}")
            if D.OE in r["trace"][1:] and target not in (D.OE, D.QSA):
                st.violation(f"C19:operation-enabled-on-the-way:{tag}", rc, f"never OPERATION ENABLED on the way to {target}", r["trace"])
            st.outcome("reached")

        kernel.explore_choices(lambda ch: one_pair(case, target, ch), case["N"], on_exec, fixed=case.get("choices"))
    st.max_dev = case["N"] if st.max_dev is None else max(st.max_dev, case["N"])
    st.sample({"case": case}, cap=4)


def run_decoder(case, st):
    from canopen.profiles.p402 import BaseNode402
    node = BaseNode402(3, od())
    lo, hi = case["range"]
    for sw in range(lo, hi):
        st.evaluations += 1
        node.tpdo_values[0x6041] = sw
        want = D.decode_statusword(sw)
        got = node.state
        if got != want:
            st.violation(f"C19:decoder:{want.replace(' ', '-')}", dict(case, sw=sw), want, got)
            break
    st.nontrivial.add(("decoder", lo))
    st.states += 1
    st.transitions += hi - lo


def run_opmode(case, st):
    from canopen.profiles.p402 import BaseNode402
    import canopen
    name = case["mode"]
    bits = [0x1, 0x2, 0x4, 0x8, 0x20, 0x40, 0x80, 0x100, 0x200, 0x10]
    masks = []
    for m in range(1024):
        masks.append(sum(b for i, b in enumerate(bits) if m >> i & 1))
    masks += [0, 0xFFFFFFFF]
    if "mask" in case:
        masks = [case["mask"]]
    ALL = sum(bits)
    prevs = [case["prev"]] if "prev" in case else [None, "complement", "all"]
    for mask, prev in itertools.product(masks, prevs):
        simenv.new_world()
        net = canopen.Network()
        simenv.SimBus("inline").attach(net, "m")

        def attach(drv):
            n = BaseNode402(3, od())
            net.add_node(n)
            n.sdo.upload = lambda i, s: (setattr(simenv.W, "now", simenv.W.now + 0.001), drv.upload(i, s))[1]
            n.sdo.download = lambda i, s, d, force_segment=False: drv.download(i, s, d)
            return n
        if prev is not None:
            # history: another node object with the same node id served a drive with a different mask (drive exchanged)
            pmask = (ALL & ~mask) if prev == "complement" else ALL
            try:
                attach(D.Drive402(D.SOD, supported=pmask)).op_mode = name
            except Exception:  # noqa: BLE001
                pass
        drive = D.Drive402(D.SOD, supported=mask)
        node = attach(drive)
        st.evaluations += 1
        st.nontrivial.add((name, mask))
        supported = D.MODE_SUPPORT_BIT[name] & mask == D.MODE_SUPPORT_BIT[name]
        rc = dict(case, mask=mask, prev=prev)
        try:
            node.op_mode = name
            err = None
        except Exception as e:  # noqa: BLE001
            err = e
        if supported:
            if err is not None:
                st.violation(f"C19:opmode:supported-mode-refused:{type(err).__name__}", rc, "mode written", repr(err)[:100])
            elif drive.mode_writes != [struct.pack("<b", D.MODE_CODES[name])]:
                st.violation("C19:opmode:wrong-code-written", rc, struct.pack("<b", D.MODE_CODES[name]).hex(),
                             [w.hex() for w in drive.mode_writes])
        else:
            if not isinstance(err, TypeError):
                st.violation("C19:opmode:unsupported-mode-not-refused", rc, "TypeError", repr(err))
            if drive.mode_writes:
                st.violation("C19:opmode:unsupported-mode-written", rc, "no write of 0x6060", [w.hex() for w in drive.mode_writes])
        st.outcome("opmode supported" if supported else "opmode refused")
    st.states += 1


def run_retry(case, st):
    start = case["start"]
    for target in ([case["target"]] if "target" in case else D.STATES):
        if target in NONCMD or target == start:
            continue
        ch = kernel.Chooser([])
        node, drive, bus = make(case["transport"], start, ch, 0, False)
        st.evaluations += 1
        st.traces += 1
        st.nontrivial_n += 1
        rc = dict(case, target=target)
        drive.deaf = True
        try:
            node.state = target
            first = None
        except Exception as e:  # noqa: BLE001
            first = e
        if first is None and drive.state != target:
            st.violation(f"C19:retry:failure-not-reported:{case['transport']}", rc, "an exception (the drive never moved)", f"returned; drive in {drive.state}")
            continue
        drive.deaf = False
        cws0 = len(drive.cws)
        try:
            node.state = target
        except Exception as e:  # noqa: BLE001
            st.violation(f"C19:retry:second-assignment-raises:{type(e).__name__}:{case['transport']}", rc, f"drive reaches {target}",
                         f"{e!r} after first attempt {first!r}; controlwords of the second attempt {[hex(c) for c in drive.cws[cws0:]]}"[:300])
            continue
        if drive.state != target:
            st.violation(f"C19:retry:wrong-final-state:{case['transport']}", rc, target, drive.state)
            continue
        st.outcome("retry reached")


def run_slow_tpdo(case, st):
    from canopen.profiles.p402 import BaseNode402
    start = case["start"]
    for target in ([case["target"]] if "target" in case else D.STATES):
        if target in NONCMD or target == start:
            continue
        ch = kernel.Chooser([])
        node, drive, bus = make("pdo", start, ch, 0, False, tpdo_cycle=case["cycle"])
        if case["how"] == "instance":
            node.TIMEOUT_CHECK_TPDO = case["check"]
        else:
            node.__class__ = type("TunedNode402", (BaseNode402,), {"TIMEOUT_CHECK_TPDO": case["check"]})
        # the library only waits for TPDOs once it has seen the map to be periodic: two receptions
        simenv.VTIME.sleep(2.5 * case["cycle"])
        st.evaluations += 1
        st.traces += 1
        st.nontrivial_n += 1
        rc = dict(case, target=target)
        try:
            node.state = target
        except Exception as e:  # noqa: BLE001
            st.violation(f"C19:slow-tpdo:setter-raises:{type(e).__name__}", rc, f"drive reaches {target}",
                         f"{e!r} trace={drive.trace} cws={[hex(c) for c in drive.cws]}"[:300])
            continue
        if drive.state != target:
            st.violation("C19:slow-tpdo:wrong-final-state", rc, target, drive.state)
            continue
        st.outcome("slow tpdo reached")


def run_case(case, st):
    if case["part"] == "slow-tpdo":
        return run_slow_tpdo(case, st)
    if case["part"] == "retry":
        return run_retry(case, st)
    {"pairs": run_pairs, "decoder": run_decoder, "opmode": run_opmode}[case["part"]](case, st)


def finish(st, tier):
    if st.outcomes.get("reached", 0) < 100 and not st.violations:
        raise simenv.HarnessError("fewer commanded transitions than expected")
