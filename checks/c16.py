"""C16 — the EMCY consumer's log and active list mirror the received history.

Explorer B (depth bounded; the log grows, so every history is a distinct state): real
EmcyProducer of a LocalNode -> SimBus -> real EmcyConsumer of a RemoteNode, plus raw frames,
consumer.reset() and add_callback(); reference lists stepped in lock-step.  Enumeration: the
producer/consumer field product and all 65536 codes for the description table.  Explorer C:
EmcyConsumer.wait() against a receiver thread over all schedules up to the preemption bound.
"""
import itertools
import struct

from mc import simenv, vsched
from mc.refs import emcy as R

ID = "C16"
LEVEL = "model_checking"
EXHAUSTIVE = True
RULE = ("all histories of length L over {producer.send for 12 codes (class boundaries, reset codes), raw 8-byte frame x2, "
        "producer.reset, consumer.reset, add_callback}, log / active list / callback log compared with reference lists after "
        "every step; four long cyclic histories of 300 / 1000 (5000, 20000) frames on one consumer; full product code x register x data length for single frames; all 65536 codes for get_desc/str; "
        "wait(): schedules of waiter x receiver (1..2 frames) x filter with <= P preemptions. state = history (no merging); "
        "non-trivial = histories containing a reset frame or consumer.reset after an error frame, schedules with a preemption")
ASSUMPTIONS = [
    "'next matching entry' = the first entry matching the filter whose processing began after the waiter started waiting",
    "waits: time-outs are long compared with scheduling delays",
]
CODES = (0x0000, 0x00FF, 0x0100, 0x1000, 0x10FF, 0x2000, 0x2FFF, 0x5000, 0x5100, 0x8130, 0xFF00, 0xFFFF)
REGS = (0, 0x81, 0xFF)
EVENTS = [("send", i) for i in range(len(CODES))] + [("raw", 0), ("raw", 1), ("preset",), ("creset",), ("cb",), ("cbn",)]
NESTED_RESET = struct.pack("<HB5s", 0x0000, 0x00, b"\x4e\x00\x00\x00\x00")
RAW = [struct.pack("<HB5s", 0x4210, 0x11, b"\x01\x02\x03\x04\x05"), struct.pack("<HB5s", 0x0042, 0x00, b"\xff\xfe\xfd\xfc\xfb")]
OD = None


def od():
    global OD
    if OD is None:
        from canopen.objectdictionary import ODVariable, ObjectDictionary, datatypes as dt
        OD = ObjectDictionary()
        v = ODVariable("hb", 0x1017)
        v.data_type = dt.UNSIGNED16
        v.default = 0
        OD.add_object(v)
    return OD


def bounds(tier):
    return {"history_length": 4 if tier == "quick" else 5, "events": len(EVENTS), "preemption_bound": 2 if tier == "quick" else 3}


def cases(tier, seed):
    L = 4 if tier == "quick" else 5
    out = []
    k = seed % len(EVENTS)
    evs = EVENTS[k:] + EVENTS[:k]
    for a in evs:
        for b in evs:
            out.append({"part": "hist", "prefix": [list(a), list(b)], "L": L})
    out.append({"part": "fields"})
    # long histories on one consumer (logs, active lists and callback logs that grow far beyond the depth of the product)
    for pat in ("errors-only", "cycle", "cycle-with-cb", "resets-every-100"):
        for N in ((300, 1000) if tier == "quick" else (300, 1000, 5000, 20000)):
            out.append({"part": "long", "pattern": pat, "N": N})
    for c in range(0, 65536, 8192):
        out.append({"part": "desc", "range": [c, c + 8192]})
    P = 2 if tier == "quick" else 3
    for frames in ([0x2010], [0x2010, 0x3020], [0x2010, 0x2010], [0x3020, 0x2010]):
        for flt in (None, 0x2010, 0x3020, 0x5555):
            out.append({"part": "wait", "frames": frames, "filter": flt, "P": P})
    for frames in ([0x2010, 0x0000], [0x0000], [0x2010]):
        out.append({"part": "wait", "frames": frames, "filter": 0x0000, "P": P})
    # the application resets the consumer (log and active list emptied) while a thread waits, with entries logged before
    for frames in (["R", 0x2010], [0x3020, "R", 0x2010], ["R", 0x2010, 0x2010]):
        for flt in (None, 0x2010):
            for pre in (1, 3):
                out.append({"part": "wait", "frames": frames, "filter": flt, "P": 2, "pre": pre})
    return out


class World:
    def __init__(self):
        import canopen
        simenv.new_world()
        self.bus = simenv.SimBus("inline")
        self.bus.reuse_rx = True         # the interface re-uses its receive buffer
        self.a, self.b = canopen.Network(), canopen.Network()
        self.bus.attach(self.a, "consumer")
        self.bus.attach(self.b, "producer")
        self.remote = self.a.add_node(5, od())
        self.local = self.b.create_node(5, od())
        self.cons = self.remote.emcy
        self.ref_log, self.ref_active = [], []
        self.cb_logs = []            # one list per registered callback
        self.ref_cb = []

    def add_cb(self):
        lst = []
        self.cb_logs.append(lst)
        self.ref_cb.append([])
        self.cons.add_callback(lambda e, _l=lst: _l.append((e.code, e.register, e.data, e.timestamp)))

    def add_nesting_cb(self):
        """A callback that reacts to an error from inside the callback: it makes the device send an error-reset EMCY, which
        arrives (synchronous interface) while the callback is still running."""
        lst = []
        self.cb_logs.append(lst)
        self.ref_cb.append(["nesting"])
        self.nesting = getattr(self, "nesting", 0)

        def cb(e, _l=lst):
            _l.append((e.code, e.register, e.data, e.timestamp))
            if not R.is_reset(e.code) and not self.in_nested:
                self.in_nested = True
                try:
                    self.bus.inject(0x85, NESTED_RESET, timestamp=e.timestamp + 0.5)
                finally:
                    self.in_nested = False
        self.in_nested = False
        self.cons.add_callback(cb)

    def _ref_frame(self, code, reg, data, ts, nested=False):
        rec = (code, reg, data, ts)
        self.ref_log.append(rec)
        if R.is_reset(code):
            self.ref_active = []
        else:
            self.ref_active.append(rec)
        for l in self.ref_cb:
            if l and l[0] == "nesting":
                l.append(rec)
                if not R.is_reset(code) and not nested:
                    c2, r2, d2 = struct.unpack("<HB5s", NESTED_RESET)
                    self._ref_frame(c2, r2, d2, ts + 0.5, nested=True)
            else:
                l.append(rec)

    def step(self, ev):
        k = ev[0]
        if k == "send":
            i = ev[1]
            code, reg, dl = CODES[i], REGS[i % 3], i % 6
            data = bytes(range(0xA1, 0xA1 + dl))
            ts = simenv.W.now
            if "explicit" in ev:
                code, reg, data = ev[2], ev[3], bytes(ev[4])
            self.local.emcy.send(code, reg, data)
            self._ref_frame(code, reg, data.ljust(5, b"\0"), ts)
        elif k == "raw":
            f = RAW[ev[1]]
            ts = 500.0 + len(self.ref_log)
            self.bus.inject(0x85, f, timestamp=ts)
            code, reg, data = struct.unpack("<HB5s", f)
            self._ref_frame(code, reg, data, ts)
        elif k == "preset":
            ts = simenv.W.now
            self.local.emcy.reset(0x81, b"\x07")
            self._ref_frame(0, 0x81, b"\x07\0\0\0\0", ts)
        elif k == "creset":
            self.cons.reset()
            self.ref_log, self.ref_active = [], []
        elif k == "cb":
            self.add_cb()
        elif k == "cbn":
            self.add_nesting_cb()

    def compare(self):
        f = lambda lst: [(e.code, e.register, e.data, e.timestamp) for e in lst]  # noqa: E731
        v = []
        if f(self.cons.log) != self.ref_log:
            v.append(("C16:log", self.ref_log[-3:], f(self.cons.log)[-3:]))
        if f(self.cons.active) != self.ref_active:
            v.append(("C16:active", self.ref_active[-3:], f(self.cons.active)[-3:]))
        if self.cb_logs != [l[1:] if l and l[0] == "nesting" else l for l in self.ref_cb]:
            v.append(("C16:callbacks", [l[-2:] for l in self.ref_cb], [l[-2:] for l in self.cb_logs]))
        return v


def run_hist(case, st):
    L = case["L"]
    prefix = [tuple(e) for e in case["prefix"]]
    tails = [()] if "hist" in case else itertools.product(EVENTS, repeat=L - len(prefix))
    if "hist" in case:
        prefix = [tuple(e) for e in case["hist"]]
    n = 0
    for tail in tails:
        hist = list(prefix) + list(tail)
        w = World()
        n += 1
        bad = False
        for i, ev in enumerate(hist):
            try:
                w.step(ev)
            except Exception as e:  # noqa: BLE001
                st.violation(f"C16:raises:{type(e).__name__}:{ev[0]}", dict(case, hist=[list(x) for x in hist[:i + 1]]),
                             "step accepted", repr(e)[:120])
                bad = True
                break
            v = w.compare()
            st.transitions += 1
            if v:
                for sig, exp, obs in v[:1]:
                    st.violation(sig, dict(case, hist=[list(x) for x in hist[:i + 1]]), exp, obs)
                bad = True
                break
        st.evaluations += 1
        st.traces += 1
        kinds = [e[0] for e in hist]
        if ("preset" in kinds or "creset" in kinds or any(e[0] == "send" and R.is_reset(CODES[e[1]]) for e in hist)) and \
                any(e[0] in ("send", "raw") for e in hist):
            st.nontrivial_n += 1
        if not bad:
            st.outcome("history ok")
    st.states += n * (L + 1)
    st.sample({"prefix": case["prefix"], "histories": n}, cap=3)


def run_long(case, st):
    w = World()
    pat, N = case["pattern"], case["N"]
    if pat == "cycle-with-cb":
        w.step(("cb",))
        w.step(("cb",))
    sends = [("send", i) for i in range(len(CODES)) if not R.is_reset(CODES[i])]
    cyc = [e for e in EVENTS if e[0] not in ("creset", "cb", "cbn")]      # (a callback more per cycle makes the history quadratic)
    for k in range(N):
        if pat == "errors-only":
            ev = sends[k % len(sends)]
        elif pat == "resets-every-100":
            ev = ("preset",) if k % 100 == 99 else sends[k % len(sends)]
        else:
            ev = cyc[k % len(cyc)]
        try:
            w.step(ev)
        except Exception as e:  # noqa: BLE001
            st.violation(f"C16:long:raises:{type(e).__name__}", dict(case, at=k), "step accepted", repr(e)[:120])
            return
        st.transitions += 1
        if k % 97 == 96 or k == N - 1 or k in (255, 256, 257, 511, 512, 1023, 1024):
            v = w.compare()
            if v:
                sig, exp, obs = v[0]
                st.violation(sig + ":long-history", dict(case, at=k), f"{len(w.ref_log)} log entries, {len(w.ref_active)} active, tail {exp}",
                             f"{len(w.cons.log)} log entries, {len(w.cons.active)} active, tail {obs}")
                return
    st.evaluations += 1
    st.traces += 1
    st.nontrivial_n += 1
    st.states += N
    st.outcome("long history ok")


def run_fields(case, st):
    for code in CODES:
        for reg in range(0, 256, 1 if code == 0x1000 else 51):
            for dl in range(6):
                w = World()
                w.add_cb()
                data = bytes(range(0x31, 0x31 + dl))
                st.evaluations += 1
                st.nontrivial.add((code, reg, dl))
                ts = simenv.W.now
                try:
                    w.local.emcy.send(code, reg, data)
                except Exception as e:  # noqa: BLE001
                    st.violation(f"C16:send-raises:{type(e).__name__}", dict(case, code=code, reg=reg, dl=dl), "frame sent", repr(e)[:100])
                    continue
                w._ref_frame(code, reg, data.ljust(5, b"\0"), ts)
                frames = [(cid, d) for (src, cid, d, rem, ext) in w.bus.log]
                if frames != [(0x85, struct.pack("<HB5s", code, reg, data))]:
                    st.violation("C16:producer-frame", dict(case, code=code, reg=reg, dl=dl),
                                 struct.pack("<HB5s", code, reg, data).hex(), [(hex(c), d.hex()) for c, d in frames])
                for sig, exp, obs in w.compare()[:1]:
                    st.violation(sig + ":single-frame", dict(case, code=code, reg=reg, dl=dl), exp, obs)
    st.states += 1
    st.sample({"fields": "codes x registers x data lengths"})


def run_desc(case, st):
    from canopen.emcy import EmcyError
    lo, hi = case["range"]
    for code in range(lo, hi):
        st.evaluations += 1
        e = EmcyError(code, 0, b"", 0.0)
        want = R.description(code)
        if e.get_desc() != want:
            st.violation("C16:description", dict(case, code=code), want, e.get_desc())
            break
        text = str(e)
        want_text = f"Code 0x{code:04X}" + (", " + want if want else "")
        if text != want_text:
            st.violation("C16:str", dict(case, code=code), want_text, text)
            break
    st.nontrivial.add(("desc", lo))
    st.states += 1
    st.transitions += hi - lo


# ------------------------------------------------------------------ wait (explorer C)
def run_wait(case, st):
    import canopen.emcy as emcy_mod
    vsched.interpose(emcy_mod.EmcyConsumer, {"log", "active", "_received"})
    frames, flt, P = case["frames"], case["filter"], case["P"]
    TIMEOUT = 1.0

    class NotingCondition(simenv.VCondition):
        def __enter__(self):
            r = super().__enter__()
            s = simenv.W.sched
            if s is not None and s.controlled():
                s.note(("cs-enter", s.cur.name))
            return r

    def harness(s):
        c = emcy_mod.EmcyConsumer()
        c.emcy_received = NotingCondition()
        for k_ in range(case.get("pre", 0)):
            c.on_emcy(0x85, struct.pack("<HB5s", 0x2010, 1, b"older"), 1.0 + k_)      # history before anybody waits
        t0 = simenv.W.now

        def waiter():
            r = c.wait(flt, TIMEOUT)
            return (None if r is None else (r.code, r.timestamp), round(simenv.W.now - t0, 3))

        def receiver():
            i = 0
            for code in frames:
                if code == "R":
                    c.reset()
                    continue
                c.on_emcy(0x85, struct.pack("<HB5s", code, 1, b"abcde"), 10.0 + i)
                i += 1
        wt = s.spawn(waiter, "waiter")
        s.spawn(receiver, "receiver")
        return lambda: (wt.res if wt.exc is None else ("EXC", repr(wt.exc)[:80]), tuple(s.events), s.deadlock)

    def on_exec(s, out):
        res, events, deadlock = out
        st.evaluations += 1
        st.traces += 1
        st.transitions += len(s.trace)
        if s.pre:
            st.nontrivial_n += 1          # (schedules are distinct by construction; keeping them costs gigabytes)
        rc = dict(case, schedule=[t[1] for t in s.trace])
        if deadlock:
            st.violation("C16:wait:deadlock", rc, "no deadlock", deadlock)
            return
        if res and res[0] == "EXC":
            st.violation("C16:wait:exception", rc, "entry or None", res[1])
            return
        first_wait = next((i for i, e in enumerate(events) if e[0] == "wait-enter"), None)
        # receiver critical sections after the waiter started waiting, in order = frames processed during the wait
        n_before = sum(1 for i, e in enumerate(events) if e == ("cs-enter", "receiver") and (first_wait is None or i < first_wait))
        during = [(code, 10.0 + i) for i, code in enumerate(f for f in frames if f != "R")][n_before:]
        matching = [e for e in during if flt is None or e[0] == flt]
        got, t = res
        st.outcome(f"filter={'none' if flt is None else hex(flt)} matching-during={len(matching)} -> {'entry' if got else 'None'}")
        if "R" in frames:
            # a reset while waiting: entries logged before the reset may be forgotten before the waiter saw them, but an
            # entry that arrives after the last reset (and during the wait) must be handed over
            n_after = len([f for f in frames[len(frames) - frames[::-1].index("R"):] if f != "R"])
            after = [e for e in during[max(len(during) - n_after, 0):] if flt is None or e[0] == flt]
            allowed = set(matching[:1]) | set(after[:1]) | (set() if after else {None})
            if got not in allowed:
                st.violation(f"C16:wait:reset-while-waiting:{'none-although-entry-arrived-after-the-reset' if got is None else 'wrong-entry'}",
                             rc, f"one of {sorted(allowed, key=str)} (during: {during})", f"{got} at t={t}")
            return
        if matching:
            if got != matching[0]:
                kind = "none-although-matching-entry-arrived" if got is None else "not-the-next-matching-entry"
                st.violation(f"C16:wait:{kind}:{'unfiltered' if flt is None else 'filtered'}", rc,
                             f"entry {matching[0]} (frames during the wait: {during})", f"{got} at t={t}")
            elif t >= TIMEOUT:
                st.violation("C16:wait:late-wakeup", rc, "returned when the entry arrived", f"returned at t={t}")
        else:
            if got is not None:
                st.violation("C16:wait:spurious-entry", rc, "None at the time-out", f"{got} (during={during})")

    if "schedule" in case:
        on_exec(*vsched.replay(harness, case))
        return
    stats = vsched.explore_with_crosscheck(st, harness, P, on_exec, case)
    st.states += stats["executions"]
    st.count("schedules", stats["executions"])
    st.count("schedules_with_preemption", stats["with_preemption"])
    st.sample({"wait": case, "schedules": stats["executions"]}, cap=8)


def run_case(case, st):
    {"long": run_long, "hist": run_hist, "fields": run_fields, "desc": run_desc, "wait": run_wait}[case["part"]](case, st)


def finish(st, tier):
    if not st.counters.get("schedules_with_preemption") and not st.violations:
        raise simenv.HarnessError("no schedule with a preemption explored")
    if st.outcomes.get("history ok", 0) < 50000 and not st.violations:
        raise simenv.HarnessError("fewer histories than the stated enumeration")
