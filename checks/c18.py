"""C18 — LSS fast scan finds the one unconfigured device's identity bit for bit; LSS services.

The real LssMaster (network.lss, virtual queue and time) talks to the CiA 305 slave model
(mc/refs/lss_slave.py) over the SimBus.  Enumeration of the identity alphabet (+ pairs of scans
on one master), explorer A over every reply of a fast scan / of each service x fault.
"""
import struct

from mc import kernel, simenv
from mc.refs.lss_slave import CONFIGURATION, LssSlave

ID = "C18"
LEVEL = "fault_enumeration"
EXHAUSTIVE = True
RULE = ("identities: for each of the 4 parts every value in {0, ~0, 1<<k, ~(1<<k) | k=0..31} x 3 backgrounds (792), no slave, "
        "pairs of consecutive scans on one master; faults: every reply position of a fast scan x {silence, wrong cs} with <= D "
        "faults; services: inquire x5, configure node id 0..255, bit timing 0..255, store, activate, switch global, switch "
        "selective, each undisturbed and with {silence, wrong cs, every error code 1..255} on its reply; histories: every "
        "sequence of <= d events over {scan, switch global x2, selective, inquire x5, configure node id x2, store, device := A / "
        "B / none} on one master, the last operation compared with a fresh master on a copy of the device. non-trivial = "
        "identities with a single bit set/cleared plus every faulted execution")
ASSUMPTIONS = [
    "2^128 identities are reduced to the per-bit / per-part alphabet (the scan treats each bit of each part independently)",
    "a non-matching selective switch (no confirmation) is not judged: the statement only demands confirmation for the slave's identity",
    "time-outs and the inter-frame sleeps are virtual",
]
VALS = [0, 0xFFFFFFFF] + [1 << k for k in range(32)] + [0xFFFFFFFF ^ (1 << k) for k in range(32)]
BGS = (0, 0xFFFFFFFF, 0xA5A5A5A5)


def bounds(tier):
    return {"identities": 4 * len(VALS) * len(BGS), "fastscan_fault_bound": 1 if tier == "quick" else 2,
            "service_error_codes": "1..255"}


def cases(tier, seed):
    out = []
    for part in range(4):
        for bg in range(3):
            out.append({"part": "ident", "idpart": part, "bg": bg})
    out.append({"part": "pairs"})
    for ident in ([0x1234, 0xFFFF0000, 7, 0x80000001], [0, 0, 0, 0], [0xFFFFFFFF] * 4):
        out.append({"part": "scanfaults", "ident": ident, "D": 1})
    if tier == "thorough":
        out.append({"part": "scanfaults", "ident": [0x5, 0x80000000, 0, 0xFFFFFFFE], "D": 2})
    for svc in ("inquire", "node_id", "bit_timing", "store", "misc"):
        out.append({"part": "services", "svc": svc})
    out.append({"part": "after-dups"})
    # operation histories on ONE master object while the device behind the bus changes
    for first in range(len(HIST_EVENTS)):
        for init in ("waiting", "configuration"):
            out.append({"part": "history", "first": first, "init": init, "depth": 4 if tier == "quick" else 5})
    return out


# receive timestamps come from the interface's clock, which need not be the computer's: Unix time (as the virtual time
# is), seconds since the interface was opened, zero (no timestamps), a clock that was set back, hardware ticks
STAMPS = (None, lambda t: t - 999999.0, lambda t: 0.0, lambda t: 3.0e9 - t, lambda t: (t * 1e6) % 65536)


# LssMaster.RESPONSE_TIMEOUT as set by the application: default, 0 (enough for an interface that delivers the reply inside
# send), tiny, large; on the instance
TIMEOUTS = (None, 0, 0.001, 30.0)


def make(ident, present=True, resp_filter=None, stamp=0, timeout=None):
    import canopen
    simenv.new_world()
    bus = simenv.SimBus("inline")
    bus.stamp = STAMPS[stamp % len(STAMPS)]
    bus.reuse_rx = bool(stamp % 2)       # ... and may re-use its receive buffer
    net = canopen.Network()
    bus.attach(net, "master")
    if timeout is not None:
        net.lss.RESPONSE_TIMEOUT = timeout
    slave = LssSlave(ident, present=present)
    if resp_filter is None:
        bus.add_device(slave.on_frame, "slave")
    else:
        def dev(cid, data, remote):
            out = []
            for rid, r in slave.on_frame(cid, data, remote):
                out += [(rid, x) for x in resp_filter(r)]
            return out
        bus.add_device(dev, "slave")
    return net, slave, bus


def frames_ok(slave, bus, st, rc, tag):
    for code, fr, txt in slave.violations[:1]:
        st.violation(f"C18:frame:{code}:{tag}", rc, "legal CiA 305 request", f"{fr}: {txt}")
    bad = [(cid, d.hex()) for (src, cid, d, rem, ext) in bus.log if src == "master" and (cid != 0x7E5 or len(d) != 8 or rem)]
    if bad:
        st.violation(f"C18:frame:format:{tag}", rc, "8 bytes on 0x7E5", bad[:2])
    if bus.format_errors:
        st.violation(f"C18:frame:can:{tag}", rc, "legal CAN frame", repr(bus.format_errors[0])[:120])


def run_ident(case, st):
    part, bg = case["idpart"], BGS[case["bg"]]
    vals = [case["value"]] if "value" in case else VALS
    for v in vals:
        ident = [bg] * 4
        ident[part] = v
        net, slave, bus = make(ident, stamp=VALS.index(v) if v in VALS else 0,
                               timeout=TIMEOUTS[(VALS.index(v) // 5) % len(TIMEOUTS)] if v in VALS else None)
        st.evaluations += 1
        st.nontrivial.add((part, v, bg))
        rc = dict(case, value=v)
        try:
            r = net.lss.fast_scan()
        except Exception as e:  # noqa: BLE001
            st.violation(f"C18:fastscan:raises:{type(e).__name__}", rc, (True, ident), repr(e)[:100])
            continue
        if r != (True, ident):
            st.violation("C18:fastscan:wrong-identity" if r[0] else "C18:fastscan:not-found", rc, (True, [hex(x) for x in ident]),
                         (r[0], None if r[1] is None else [hex(x) for x in r[1]]))
        elif slave.state != CONFIGURATION:
            st.violation("C18:fastscan:slave-not-in-configuration-state", rc, CONFIGURATION, slave.state)
        frames_ok(slave, bus, st, rc, "fastscan")
        st.outcome("found")
    # no slave present
    net, slave, bus = make([1, 2, 3, 4], present=False)
    st.evaluations += 1
    r = net.lss.fast_scan()
    if r != (False, None):
        st.violation("C18:fastscan:no-slave", case, (False, None), r)
    st.outcome("no slave -> (False, None)")
    st.sample({"ident part": part, "background": hex(bg), "values": len(vals)}, cap=3)


def run_pairs(case, st):
    """Two scans with one master object against two different devices (history)."""
    import canopen
    idents = [[0, 0, 0, 0], [0xFFFFFFFF] * 4, [0x1234, 0xFFFF0000, 7, 0x80000001], [1, 2, 3, 4], [0x80000000, 1, 0, 0xA5A5A5A5]]
    for a in idents:
        for b in idents:
            simenv.new_world()
            bus = simenv.SimBus("inline")
            net = canopen.Network()
            bus.attach(net, "master")
            cur = {"slave": LssSlave(a)}
            bus.add_device(lambda cid, d, rem: cur["slave"].on_frame(cid, d, rem), "slave")
            st.evaluations += 1
            st.nontrivial.add(("pair", tuple(a), tuple(b)))
            rc = dict(case, a=a, b=b)
            r1 = net.lss.fast_scan()
            cur["slave"] = LssSlave(b)
            r2 = net.lss.fast_scan()
            if r1 != (True, a) or r2 != (True, b) or cur["slave"].state != CONFIGURATION:
                st.violation("C18:fastscan:second-scan-on-same-master", rc, [(True, a), (True, b)], [r1, r2, cur["slave"].state])
            st.outcome("pair ok")
    st.sample({"scan pairs": len(idents) ** 2})


def run_scanfaults(case, st):
    ident = case["ident"]

    def run(ch):
        n = [0]

        def flt(r):
            n[0] += 1
            k = ch.choose(3, f"reply{n[0]}")
            if k == 0:
                return [r]
            if k == 1:
                return []
            return [bytes([r[0] ^ 0x01]) + r[1:]]
        net, slave, bus = make(ident, resp_filter=flt)
        try:
            r = net.lss.fast_scan()
        except Exception as e:  # noqa: BLE001
            r = ("EXC", repr(e)[:80])
        return r, slave.state

    def on_exec(ch, out):
        r, state = out
        st.evaluations += 1
        if ch.deviations:
            st.nontrivial_n += 1
        rc = dict(case, choices=ch.choices)
        if r == (True, ident) or r == (False, None):
            st.outcome("exact" if r[0] else "(False, None)")
            if not ch.deviations and r != (True, ident):
                st.violation("C18:fastscan:undisturbed-fails", rc, (True, ident), r)
            return
        st.violation("C18:fastscan:wrong-result-under-fault" if r[0] is True else f"C18:fastscan:{r[0]}-under-fault", rc,
                     "(False, None) or the exact identity", r)

    res = kernel.explore_choices(run, case["D"], on_exec, fixed=case.get("choices"))
    st.max_dev = case["D"] if st.max_dev is None else max(st.max_dev, case["D"])
    st.sample({"scanfaults": case, "executions": res["executions"]}, cap=3)


def run_services(case, st):
    from canopen.lss import LssError
    ident = [0x22, 0x12345678, 0x555, 0xABCDEF]
    svc = case["svc"]
    calls = []          # (name, fn(lss) -> result, expected(slave) or Exception marker)
    if svc == "inquire":
        for i, cs in enumerate((0x5A, 0x5B, 0x5C, 0x5D)):
            calls.append((f"inquire-{cs:02X}", lambda l, cs=cs: l.inquire_lss_address(cs), ident[i]))
        calls.append(("inquire-node-id", lambda l: l.inquire_node_id(), 0xFF))
    elif svc == "node_id":
        for nid in range(256):
            ok = 1 <= nid <= 127 or nid == 255
            calls.append((f"configure-node-id", lambda l, nid=nid: l.configure_node_id(nid), None if ok else LssError, nid))
    elif svc == "bit_timing":
        for bt in range(256):
            ok = bt <= 8 and bt != 5
            calls.append((f"configure-bit-timing", lambda l, bt=bt: l.configure_bit_timing(bt), None if ok else LssError, bt))
    elif svc == "store":
        calls.append(("store", lambda l: l.store_configuration(), None))
    else:
        calls.append(("switch-global-config", lambda l: l.send_switch_state_global(l.CONFIGURATION_STATE), None))
        calls.append(("switch-global-waiting", lambda l: l.send_switch_state_global(l.WAITING_STATE), None))
        calls.append(("activate-bit-timing", lambda l: l.activate_bit_timing(0x1234), None))
        calls.append(("selective-match", lambda l: l.send_switch_state_selective(*ident), True))
    for call in calls:
        name, fn, want = call[0], call[1], call[2]
        arg = call[3] if len(call) > 3 else None
        faults = [None, "silence", "wrong-cs"]
        if name in ("configure-node-id", "configure-bit-timing", "store") and (arg in (None, 1, 0)):
            faults += [("error", c) for c in range(1, 256)]
        for fault in faults:
            def flt(r, fault=fault):
                if fault is None:
                    return [r]
                if fault == "silence":
                    return []
                if fault == "wrong-cs":
                    return [bytes([r[0] ^ 0x20]) + r[1:]]
                return [bytes([r[0], fault[1]]) + r[2:]]
            net, slave, bus = make(ident, resp_filter=flt, stamp=len(calls) + (arg or 0),
                                   timeout=TIMEOUTS[((arg or 0) + len(name)) % len(TIMEOUTS)])
            if name != "selective-match":
                net.lss.send_switch_state_global(net.lss.CONFIGURATION_STATE)
            st.evaluations += 1
            st.nontrivial.add((name, arg, repr(fault)))
            rc = dict(case, call=name, arg=arg, fault=fault)
            try:
                got = fn(net.lss)
                exc = None
            except LssError as e:
                got, exc = None, e
            except Exception as e:  # noqa: BLE001
                st.violation(f"C18:{name}:wrong-exception:{type(e).__name__}", rc, "result or LssError", repr(e)[:100])
                continue
            replies_expected = name not in ("switch-global-config", "switch-global-waiting", "activate-bit-timing")
            if fault is None or not replies_expected:
                if want is LssError:
                    if exc is None:
                        st.violation(f"C18:{name}:slave-error-not-raised", rc, "LssError", got)
                elif exc is not None:
                    st.violation(f"C18:{name}:raises", rc, want, repr(exc)[:100])
                elif got != want:
                    st.violation(f"C18:{name}:wrong-result", rc, want, got)
                if name == "selective-match" and slave.state != CONFIGURATION:
                    st.violation("C18:selective:slave-not-switched", rc, CONFIGURATION, slave.state)
                if name == "switch-global-waiting" and slave.state != "waiting":
                    st.violation("C18:switch-global", rc, "waiting", slave.state)
                if name == "activate-bit-timing" and slave.activated != 0x1234:
                    st.violation("C18:activate-bit-timing:delay", rc, hex(0x1234), slave.activated)
            else:
                slave_error = want is LssError
                if exc is None and name != "selective-match":
                    st.violation(f"C18:{name}:fault-not-raised:{fault if isinstance(fault, str) else 'error-code'}", rc,
                                 "LssError", got)
                elif exc is None and name == "selective-match" and got is True:
                    st.violation(f"C18:selective:confirmed-under-fault:{fault}", rc, "not confirmed", got)
            frames_ok(slave, bus, st, rc, name)
            st.outcome(f"{name} fault={'none' if fault is None else (fault if isinstance(fault, str) else 'error')} -> "
                       f"{'LssError' if exc else 'returns'}")
    st.sample({"services": svc, "calls": len(calls)}, cap=5)


def run_after_duplicates(case, st):
    """History: a service whose reply arrives 2 or 3 times, then another service: it must get the slave's answer."""
    from canopen.lss import LssError
    ident = [0x22, 0x12345678, 0x555, 0xABCDEF]
    firsts = [("inquire-node-id", lambda l: l.inquire_node_id()), ("store", lambda l: l.store_configuration()),
              ("configure-node-id", lambda l: l.configure_node_id(9)), ("inquire-vendor", lambda l: l.inquire_lss_address(0x5A))]
    seconds = [("inquire-product", lambda l: l.inquire_lss_address(0x5B), 0x12345678), ("inquire-node-id", lambda l: l.inquire_node_id(), None),
               ("store", lambda l: l.store_configuration(), None), ("configure-bit-timing", lambda l: l.configure_bit_timing(2), None)]
    for copies in (2, 3, 4):
        for fn_name, first in firsts:
            for sn, second, want in seconds:
                state = {"armed": True}

                def flt(r, copies=copies, state=state):
                    if state["armed"] and r[0] != 0x4F:
                        state["armed"] = False
                        return [r] * copies
                    return [r]
                net, slave, bus = make(ident, resp_filter=flt)
                net.lss.send_switch_state_global(net.lss.CONFIGURATION_STATE)
                st.evaluations += 1
                st.nontrivial.add(("dups", copies, fn_name, sn))
                rc = dict(case, copies=copies, first=fn_name, second=sn)
                try:
                    first(net.lss)
                except LssError:
                    pass
                try:
                    got = second(net.lss)
                except Exception as e:  # noqa: BLE001
                    st.violation(f"C18:after-duplicate-replies:{type(e).__name__}", rc, "the slave's answer", repr(e)[:100])
                    continue
                if sn == "inquire-node-id":
                    want = slave.node_id
                if want is not None and got != want:
                    st.violation("C18:after-duplicate-replies:wrong-answer", rc, want, got)
                st.outcome("service after duplicates ok")


ID_A = [0x22, 0x12345678, 0x555, 0xABCDEF]
ID_B = [0x23, 0x92345678, 0x0, 0xFFFFFFFF]
HIST_EVENTS = ["scan", "global-config", "global-waiting", "selective", "inq-5A", "inq-5B", "inq-5C", "inq-5D", "inq-node",
               "conf-node-9", "conf-node-255", "store", "dev-A", "dev-B", "dev-none"]


def _hist_do(lss, cur, e):
    """Apply one history event; returns a comparable result for master operations, None for device changes."""
    from canopen.lss import LssError
    if e.startswith("dev-"):
        cur["slave"] = {"dev-A": LssSlave(ID_A), "dev-B": LssSlave(ID_B), "dev-none": LssSlave([1, 2, 3, 4], present=False)}[e]
        return None
    try:
        if e == "scan":
            r = lss.fast_scan()
            return ("ok", r[0], None if r[1] is None else list(r[1]))
        if e == "global-config":
            return ("ok", lss.send_switch_state_global(lss.CONFIGURATION_STATE))
        if e == "global-waiting":
            return ("ok", lss.send_switch_state_global(lss.WAITING_STATE))
        if e == "selective":
            return ("ok", lss.send_switch_state_selective(*cur["slave"].id))
        if e.startswith("inq-5"):
            return ("ok", lss.inquire_lss_address(int(e[4:], 16)))
        if e == "inq-node":
            return ("ok", lss.inquire_node_id())
        if e.startswith("conf-node-"):
            return ("ok", lss.configure_node_id(int(e[10:])))
        if e == "store":
            return ("ok", lss.store_configuration())
    except LssError:
        return ("LssError",)
    except Exception as ex:  # noqa: BLE001
        return ("EXC", type(ex).__name__)
    raise KeyError(e)


def run_history(case, st):
    """Differential oracle: after any history, an operation on the used master gives what a FRESH master gives against
    a copy of the device in the same state (the master keeps no memory of earlier devices or answers), and leaves the
    device in the same state."""
    import copy
    import itertools
    import canopen

    def world(slave):
        simenv.new_world()
        bus = simenv.SimBus("inline")
        net = canopen.Network()
        bus.attach(net, "master")
        cur = {"slave": slave}
        bus.add_device(lambda cid, d, rem: cur["slave"].on_frame(cid, d, rem), "slave")
        return net, cur

    def slave_state(sl):
        return (sl.state, sl.node_id, sl.pos, sl.stored, sl.bit_timing, sl.present, tuple(sl.id))

    if "seq" in case:
        seqs = [case["seq"]]
    else:
        f = HIST_EVENTS[case["first"]]
        seqs = [[f] + list(r) for n in range(0, case["depth"]) for r in itertools.product(HIST_EVENTS, repeat=n)]
    for seq in seqs:
        if seq[-1].startswith("dev-"):
            continue
        st.evaluations += 1
        st.traces += 1
        st.transitions += len(seq)
        net, cur = world(LssSlave(ID_A))
        if case.get("init") == "configuration":
            net.lss.send_switch_state_global(net.lss.CONFIGURATION_STATE)
        for e in seq[:-1]:
            _hist_do(net.lss, cur, e)
        twin = copy.deepcopy(cur["slave"])
        twin.frames, twin.violations = [], []
        got = _hist_do(net.lss, cur, seq[-1])
        end = slave_state(cur["slave"])
        net2, cur2 = world(twin)
        want = _hist_do(net2.lss, cur2, seq[-1])
        want_end = slave_state(cur2["slave"])
        rc = {"part": "history", "seq": list(seq), "init": case.get("init")}
        if len(seq) > 1:
            st.nontrivial_n += 1
        if got != want:
            st.violation(f"C18:history:{seq[-1]}:differs-from-fresh-master", rc, want, got)
        elif end != want_end:
            st.violation(f"C18:history:{seq[-1]}:device-left-in-another-state", rc, want_end, end)
        elif got[0] == "EXC":
            st.violation(f"C18:history:{seq[-1]}:wrong-exception", rc, "result or LssError", got)
        else:
            st.outcome(f"history {seq[-1]} -> {got[0]}")
    st.sample({"history first": case.get("first"), "sequences": len(seqs)}, cap=3)


def run_case(case, st):
    if case["part"] == "history":
        return run_history(case, st)
    if case["part"] == "after-dups":
        return run_after_duplicates(case, st)
    {"ident": run_ident, "pairs": run_pairs, "scanfaults": run_scanfaults, "services": run_services}[case["part"]](case, st)


def finish(st, tier):
    if st.outcomes.get("found", 0) < 4 * len(VALS) * len(BGS) and not st.violations:
        raise simenv.HarnessError("identity alphabet not fully covered")
