"""C03 — typed values survive the client -> bus -> server -> client round trip.

(a) enumeration: every value of the 8/16-bit types, boundary sets of the wider integer types,
    the REAL grid, strings / byte strings of length 0..N through a RemoteNode's typed SDO accessor
    (by index, by name, by 'Record.Member', array members) to a LocalNode on the same SimBus and
    back, with inline and deferred delivery and unrelated traffic in between.
(b) explorer C: 2..3 client threads on distinct node pairs + one dispatcher thread that moves
    frames from the bus FIFO into the real MessageListener + a noise source; all schedules up to
    the preemption bound.  Extra harness: a late duplicate response racing with the response-queue
    flush of the next transfer.
"""
import math
import struct

from mc import simenv, vsched
from mc.refs import codec

ID = "C03"
LEVEL = "model_checking"
EXHAUSTIVE = True
RULE = ("(a) all 2^8/2^16 values of the 8/16-bit types, +-2^k+d boundary sets of the wider types, REAL32/64 grid (NaN by bit "
        "pattern), BOOLEAN, VISIBLE/UNICODE/OCTET strings and DOMAIN of every length 0..N; access by index, name, "
        "'Record.Member', array member; read back through the remote node, through local.sdo and from data_store; delivery "
        "inline / deferred / with noise frames / through an interface that re-uses one receive buffer. (b) schedules of client threads (write-then-read of an expedited and a "
        "9-byte segmented object each) x dispatcher x noise with <= P preemptions, partitioned by the position of the first "
        "deviation. states = schedules + round trips; non-trivial = boundary / non-finite / empty / multi-segment values and "
        "schedules with a preemption")
ASSUMPTIONS = [
    "python-can's own notifier thread and virtual bus are outside the bound; the glue MessageListener.on_message_received is driven by the dispatcher thread",
    "scheduling points: every virtual lock / queue / bus operation and every access to SdoClient.responses; GIL-level interleavings inside one source line are not explored",
    "schedule bound counts every departure from the default schedule (preemptions and the choice of the next thread when the running one blocks)",
    "in the late-duplicate harness an SdoCommunicationError is an allowed outcome; wrong data never is",
]
_OD = None
REC, ARR = 0x3000, 0x3001


def od():
    global _OD
    if _OD is None:
        from canopen.objectdictionary import ODArray, ODRecord, ODVariable, ObjectDictionary, datatypes as dt
        o = ObjectDictionary()
        idx = 0x2000
        m = {}
        for n in codec.INT_TYPES + ["BOOLEAN", "REAL32", "REAL64", "VISIBLE_STRING", "UNICODE_STRING", "OCTET_STRING", "DOMAIN"]:
            v = ODVariable("T_" + n, idx)
            v.data_type = getattr(dt, n)
            o.add_object(v)
            m[n] = idx
            idx += 1
        rec = ODRecord("Rec", REC)
        for s, (n, t) in enumerate([("n", dt.UNSIGNED8), ("Member", dt.INTEGER16), ("Text", dt.VISIBLE_STRING)]):
            v = ODVariable(n, REC, s)
            v.data_type = t
            rec.add_member(v)
        o.add_object(rec)
        arr = ODArray("Arr", ARR)
        for s in range(3):
            v = ODVariable("a%d" % s, ARR, s)
            v.data_type = dt.UNSIGNED8 if s == 0 else dt.INTEGER32
            v.default = 2 if s == 0 else 0
            arr.add_member(v)
        o.add_object(arr)
        v = ODVariable("hb", 0x1017)
        v.data_type = dt.UNSIGNED16
        v.default = 0
        o.add_object(v)
        _OD = (o, m)
    return _OD


def bounds(tier):
    return {"string_lengths": "0..40" if tier == "quick" else "0..200", "preemption_bound": 1 if tier == "quick" else 2,
            "client_threads": 2 if tier == "quick" else "2 (P<=2) and 3 (P<=1)"}


def cases(tier, seed):
    out = []
    for t in ("INTEGER8", "UNSIGNED8"):
        out.append({"part": "ints", "type": t, "lo": None, "hi": None, "mode": "inline"})
    for t in ("INTEGER16", "UNSIGNED16"):
        lo, hi = codec.int_range(t)
        step = 4096
        for a in range(lo, hi + 1, step):
            out.append({"part": "ints", "type": t, "lo": a, "hi": min(a + step - 1, hi), "mode": "inline"})
    for t in codec.INT_TYPES:
        if codec.int_info(t)[0] > 16:
            out.append({"part": "ints", "type": t, "lo": None, "hi": None, "mode": "inline"})
        out.append({"part": "ints", "type": t, "lo": None, "hi": None, "mode": "deferred", "boundary_only": True})
        out.append({"part": "ints", "type": t, "lo": None, "hi": None, "mode": "noise", "boundary_only": True})
        out.append({"part": "ints", "type": t, "lo": None, "hi": None, "mode": "reuse-rx", "boundary_only": True})
    out.append({"part": "other", "mode": "inline"})
    out.append({"part": "other", "mode": "deferred"})
    out.append({"part": "other", "mode": "reuse-rx"})
    N = 40 if tier == "quick" else 200
    for a in range(0, N + 1, 10):
        for mode in ("inline", "deferred", "noise", "reuse-rx"):
            out.append({"part": "strings", "lens": [a, min(a + 9, N)], "mode": mode, "seed": seed})
    out.append({"part": "access"})
    # round trips AFTER something failed on the same client / server objects (refused write, vetoing callback, transfer
    # the client gave up on): the failure must not leak into the next value
    for fail in FAILURES:
        out.append({"part": "after-failure", "fail": fail, "seed": seed})
    # every code point as first and as last character of a string (quick: the ranges where encodings have special cases)
    if tier == "quick":
        rng = [(0x01, 0x180), (0x2000, 0x2070), (0x3000, 0x3002), (0xD7F0, 0xD800), (0xE000, 0xE010), (0xFE00, 0x10000)]
    else:
        rng = [(a, min(a + 0x800, 0x10000)) for a in range(0, 0x10000, 0x800)]
    for lo, hi in rng:
        out.append({"part": "codepoints", "range": [max(lo, 1), hi]})
    # (b) schedules: partition by the position of the first deviation
    P = 1 if tier == "quick" else 2
    for lo in range(0, 400, 8 if tier == "quick" else 4):
        out.append({"part": "sched", "clients": 2, "P": P, "range": [lo, lo + (8 if tier == "quick" else 4)]})
    if tier == "thorough":
        for lo in range(0, 600, 10):
            out.append({"part": "sched", "clients": 3, "P": 1, "range": [lo, lo + 10]})
    for lo in range(0, 120, 10):
        out.append({"part": "late-dup", "P": 2 if tier == "quick" else 3, "range": [lo, lo + 10]})
    # responses delivered inside the send call by the requesting thread itself, two requesting threads (no bus lock in
    # between: the networks are wired by send_message -> notify): two threads are inside Network.notify at once
    # (only the first thread's points can be preempted by the bound, so the partition is fine there and coarse after)
    for lo in range(0, 32):
        out.append({"part": "inline-threads", "scope": "network", "P": 2 if tier == "quick" else 3, "range": [lo, lo + 1]})
    out.append({"part": "inline-threads", "scope": "network", "P": 2 if tier == "quick" else 3, "range": [32, 100000]})
    wide_step = 12 if tier == "quick" else 1
    for lo in range(0, 240, wide_step):
        out.append({"part": "inline-threads", "scope": "wide", "P": 1 if tier == "quick" else 2, "range": [lo, lo + wide_step]})
    out.append({"part": "inline-threads", "scope": "wide", "P": 1 if tier == "quick" else 2, "range": [240, 100000]})
    # own-the-nondeterminism cross-check: the same harness with every source line of canopen as a scheduling point
    # (shared state the attribute-level points do not see, e.g. a buffer hoisted to module scope)
    if tier == "quick":
        for lo in range(0, 800, 25):
            out.append({"part": "sched", "clients": 2, "P": 1, "range": [lo, lo + 25], "lines": True, "mini": True})
    else:
        for lo in range(0, 3200, 40):
            out.append({"part": "sched", "clients": 2, "P": 1, "range": [lo, lo + 40], "lines": True})
    return out


class Pair:
    """RemoteNode on network A, LocalNode on network B, one SimBus."""

    def __init__(self, mode="inline", nodes=(5,)):
        import canopen
        simenv.new_world()
        self.bus = simenv.SimBus("deferred" if mode == "deferred" else "inline")
        # "reuse-rx": an interface that hands every received frame over in one re-used buffer, with unrelated traffic
        self.bus.reuse_rx = mode == "reuse-rx"
        self.a, self.b = canopen.Network(), canopen.Network()
        self.bus.attach(self.a, "client")
        self.bus.attach(self.b, "server")
        o, self.idx = od()
        self.remote = {n: self.a.add_node(n, o) for n in nodes}
        self.local = {n: self.b.create_node(n, o) for n in nodes}
        self.mode = mode
        self.k = 0

    def noise(self):
        if self.mode in ("noise", "reuse-rx"):
            self.k += 1
            self.bus.inject(0x7F0, bytes([self.k & 0xFF]))
            self.bus.inject(0x705, b"\x05")
            self.bus.inject(0x000, bytes([1, 9]))
            self.bus.inject(0x585 + 1, bytes([0x43, 0, 0x20, 0, 9, 9, 9, 9]))    # SDO response of another node


def roundtrip(p, st, rc, tname, value, want_bytes, by="name", sigkind=None):
    remote, local = p.remote[5], p.local[5]
    key = "T_" + tname if by == "name" else p.idx[tname]
    st.evaluations += 1
    sigkind = sigkind or tname
    try:
        p.noise()
        remote.sdo[key].raw = value
        p.noise()
        r1 = remote.sdo[p.idx[tname]].raw
        r2 = local.sdo["T_" + tname].raw
        stored = local.data_store[p.idx[tname]][0]
    except Exception as e:  # noqa: BLE001
        st.violation(f"C03:raises:{type(e).__name__}:{sigkind}:{p.mode}", rc, "round trip", repr(e)[:120])
        return False

    def eq(a, b):
        if isinstance(b, float) and math.isnan(b):
            return isinstance(a, float) and math.isnan(a)
        return a == b and (not isinstance(b, float) or math.copysign(1, a) == math.copysign(1, b))
    if bytes(stored) != want_bytes:
        st.violation(f"C03:stored-bytes:{sigkind}:{p.mode}", rc, want_bytes.hex()[:60], bytes(stored).hex()[:60])
        return False
    if not eq(r1, value) or not eq(r2, value):
        st.violation(f"C03:read-back:{sigkind}:{p.mode}", rc, repr(value)[:60], f"remote={r1!r} local={r2!r}"[:120])
        return False
    return True


def run_ints(case, st):
    t = case["type"]
    lo, hi = codec.int_range(t)
    w = codec.int_info(t)[0]
    if case.get("boundary_only") or w > 16:
        vals = codec.boundary_values(t)
        if case.get("boundary_only"):
            vals = [v for v in vals if v in (lo, lo + 1, -1, 0, 1, hi - 1, hi) or abs(v) in (127, 128, 255, 256, 32767, 32768, 65535)]
    else:
        vals = range(case["lo"] if case["lo"] is not None else lo, (case["hi"] if case["hi"] is not None else hi) + 1)
    if "value" in case:
        vals = [case["value"]]
    p = Pair(case["mode"])
    n = 0
    for v in vals:
        ok = roundtrip(p, st, dict(case, value=v), t, v, codec.encode_int(t, v), by=("name", "index")[n % 2], sigkind="int")
        n += 1
        if v in (lo, hi, 0, -1):
            st.nontrivial.add((t, v, case["mode"]))
        if not ok:
            break
    st.states += n
    st.outcome("ints ok")
    st.sample({"ints": t, "values": n, "mode": case["mode"]}, cap=3)


def run_other(case, st):
    p = Pair(case["mode"])
    for v in (True, False):
        roundtrip(p, st, dict(case, value=v), "BOOLEAN", v, bytes([v]), sigkind="bool")
        st.nontrivial.add(("BOOLEAN", v, case["mode"]))
    for name, fmt, size in (("REAL32", "<f", 4), ("REAL64", "<d", 8)):
        for bits in codec.real_grid_bits(name):
            pattern = bits.to_bytes(size, "little")
            x = struct.unpack(fmt, pattern)[0]
            if math.isnan(x):
                want = struct.pack(fmt, x)
            else:
                want = pattern
            roundtrip(p, st, dict(case, bits=bits, type=name), name, x, want, sigkind="real")
            st.nontrivial.add((name, bits, case["mode"]))
    st.outcome("other ok")


def run_strings(case, st):
    p = Pair(case["mode"])
    seed = case.get("seed", 0)
    for L in range(case["lens"][0], case["lens"][1] + 1):
        s = "".join(chr(0x21 + (i * 7 + seed) % 90) for i in range(L))
        b = simenv.pattern(L, seed)
        for tname, v, enc in (("VISIBLE_STRING", s, s.encode("ascii")), ("UNICODE_STRING", s, s.encode("utf-16-le")),
                              ("OCTET_STRING", b, b), ("DOMAIN", b, b)):
            roundtrip(p, st, dict(case, lens=[L, L], type=tname), tname, v, enc, by=("name", "index")[L % 2],
                      sigkind=f"{tname}:len{'0' if L == 0 else ('1-4' if L <= 4 else '>4')}")
            if L in (0, 4, 5, 7, 8) or L % 7 == 0:
                st.nontrivial.add((tname, L, case["mode"]))
    st.outcome("strings ok")


FAILURES = ("wrong-length-segmented", "wrong-length-expedited", "veto-callback-segmented", "veto-callback-expedited",
            "read-callback-raises", "upload-abandoned", "download-abandoned", "missing-object", "two-failures")


def run_after_failure(case, st):
    import canopen
    fail = case["fail"]
    seed = case.get("seed", 0)
    values = [("VISIBLE_STRING", "second label", b"second label"), ("UNSIGNED32", 0xCAFE0001, struct.pack("<L", 0xCAFE0001)),
              ("DOMAIN", simenv.pattern(9, seed), simenv.pattern(9, seed)), ("OCTET_STRING", b"ab", b"ab"),
              ("UNICODE_STRING", "xyz", "xyz".encode("utf-16-le")), ("INTEGER16", -2, struct.pack("<h", -2)),
              ("DOMAIN", simenv.pattern(30, seed + 1), simenv.pattern(30, seed + 1))]
    for first in range(len(values)):
        p = Pair("inline")
        remote, local = p.remote[5], p.local[5]
        veto = {"on": False}

        def on_write(index, subindex, od, data):
            if veto["on"]:
                raise canopen.SdoAbortedError(0x08000020)

        def on_read(index, subindex, od):
            if veto["on"]:
                raise canopen.SdoAbortedError(0x08000024)
            return None
        local.add_write_callback(on_write)
        local.add_read_callback(on_read)
        # a value that is there before the failure (it must survive it)
        remote.sdo["T_VISIBLE_STRING"].raw = "SN-0012345678"
        kinds = [fail] if fail != "two-failures" else ["wrong-length-segmented", "upload-abandoned"]
        for kind in kinds:
            try:
                if kind == "wrong-length-segmented":
                    remote.sdo.download(p.idx["UNSIGNED32"], 0, b"123456789", force_segment=True)
                elif kind == "wrong-length-expedited":
                    remote.sdo.download(p.idx["UNSIGNED32"], 0, b"12")
                elif kind.startswith("veto-callback"):
                    veto["on"] = True
                    remote.sdo["T_DOMAIN"].raw = b"vetoed-data!" if kind.endswith("segmented") else b"no"
                elif kind == "read-callback-raises":
                    veto["on"] = True
                    remote.sdo["T_VISIBLE_STRING"].raw
                elif kind == "missing-object":
                    remote.sdo.upload(0x5FFF, 0)
                elif kind == "upload-abandoned":
                    with remote.sdo.open(p.idx["VISIBLE_STRING"], 0, "rb", buffering=0) as fp:
                        fp.read(7)                 # the application loses interest after the first segment
                    raise canopen.SdoCommunicationError("abandoned")
                elif kind == "download-abandoned":
                    try:
                        with remote.sdo.open(p.idx["DOMAIN"], 0, "wb", buffering=0, size=20) as fp:
                            fp.write(b"1234567")   # first segment of 20 announced bytes, then the application fails
                            raise KeyError("application error")
                    except KeyError:
                        pass
                    raise canopen.SdoCommunicationError("abandoned")
                st.violation(f"C03:after-failure:{kind}:not-refused", dict(case, first=first), "an SDO error", "returned normally")
            except (canopen.SdoAbortedError, canopen.SdoCommunicationError):
                pass
            except Exception as e:  # noqa: BLE001
                st.violation(f"C03:after-failure:{kind}:raises:{type(e).__name__}", dict(case, first=first), "an SDO error", repr(e)[:120])
            veto["on"] = False
        rc = dict(case, first=first)
        st.nontrivial.add(("after-failure", fail, first))
        order = values[first:] + values[:first]
        ok = True
        for tname, v, enc in order:
            ok = roundtrip(p, st, rc, tname, v, enc, by="index", sigkind=f"after-failure:{fail}:{tname}") and ok
        if ok:
            st.outcome("after-failure ok")


def run_codepoints(case, st):
    p = Pair("inline")
    cps = [case["cp"]] if "cp" in case else [c for c in range(*case["range"]) if not 0xD800 <= c <= 0xDFFF]
    for cp in cps:
        ch = chr(cp)
        for pos, s in (("first", ch + "Label"), ("last", "Label" + ch), ("only", ch)):
            st.nontrivial.add(("cp", cp, pos))
            rc = {"part": "codepoints", "cp": cp, "range": [cp, cp + 1]}
            roundtrip(p, st, rc, "UNICODE_STRING", s, s.encode("utf-16-le"), by="index", sigkind=f"UNICODE_STRING:codepoint-{pos}")
            if cp < 128:
                roundtrip(p, st, rc, "VISIBLE_STRING", s, s.encode("ascii"), by="index", sigkind=f"VISIBLE_STRING:codepoint-{pos}")
    st.outcome("code points ok")


def run_access(case, st):
    p = Pair("inline")
    remote, local = p.remote[5], p.local[5]
    st.evaluations += 1
    st.nontrivial.add("access")
    try:
        remote.sdo["Rec.Member"].raw = -7
        got = (remote.sdo["Rec"]["Member"].raw, remote.sdo[REC][1].raw, local.sdo["Rec.Member"].raw, bytes(local.data_store[REC][1]))
        if got != (-7, -7, -7, struct.pack("<h", -7)):
            st.violation("C03:access:record-member", case, (-7, -7, -7, struct.pack("<h", -7).hex()), got)
        remote.sdo["Rec.Text"].raw = "hello record"
        if local.sdo[REC][2].raw != "hello record":
            st.violation("C03:access:record-text", case, "hello record", local.sdo[REC][2].raw)
        remote.sdo["Arr"][2].raw = -123456
        got = (remote.sdo[ARR][2].raw, local.sdo["Arr"][2].raw, bytes(local.data_store[ARR][2]))
        if got != (-123456, -123456, struct.pack("<l", -123456)):
            st.violation("C03:access:array-member", case, -123456, got)
    except Exception as e:  # noqa: BLE001
        st.violation(f"C03:access:raises:{type(e).__name__}", case, "access works", repr(e)[:120])
    st.outcome("access ok")


# ------------------------------------------------------------------ (b) schedules
def sched_harness(nclients, s, mini=False):
    import can
    import canopen
    import canopen.sdo.client as cl_mod
    vsched.interpose(cl_mod.SdoClient, {"responses"})
    bus = simenv.SimBus("ports")
    a, b = canopen.Network(), canopen.Network()
    pa = bus.attach(a, "client")
    pb = bus.attach(b, "server")
    o, idx = od()
    nodes = [5 + i for i in range(nclients)]
    remote = {n: a.add_node(n, o) for n in nodes}
    local = {n: b.create_node(n, o) for n in nodes}
    results = {}
    done = []

    # every client works on its own pair of objects (different multiplexers in the request frames)
    NUM = {5: "UNSIGNED16", 6: "UNSIGNED32", 7: "INTEGER16"}
    STR = {5: "VISIBLE_STRING", 6: "OCTET_STRING", 7: "DOMAIN"}

    def client(n):
        def body():
            try:
                num, strt = NUM[n], STR[n]
                v16 = 0x1111 * (n - 3)
                text = "client-%d" % n
                if strt != "VISIBLE_STRING":
                    text = text.encode()
                remote[n].sdo["T_" + num].raw = v16
                l16 = local[n].sdo["T_" + num].raw                    # read back from the local side at once
                if mini:
                    got16 = remote[n].sdo["T_" + num].raw
                    ok = got16 == v16 and l16 == v16
                    results[n] = "ok" if ok else f"WRONG remote={got16!r} local={l16!r}"
                    done.append(n)
                    s.wake(pa)
                    s.wake(pb)
                    return
                remote[n].sdo["T_" + strt].raw = text                 # 8 bytes -> segmented (2 segments)
                lt = local[n].sdo["T_" + strt].raw
                got16 = remote[n].sdo["T_" + num].raw
                gott = remote[n].sdo["T_" + strt].raw
                raw_text = text if isinstance(text, bytes) else text.encode()
                ok = got16 == v16 and gott == text and l16 == v16 and lt == text and \
                    bytes(local[n].data_store[idx[num]][0]) == codec.encode_int(num, v16) \
                    and bytes(local[n].data_store[idx[strt]][0]) == raw_text
                results[n] = "ok" if ok else f"WRONG remote=({got16!r}, {gott!r}) local=({l16!r}, {lt!r})"
            except Exception as e:  # noqa: BLE001
                results[n] = "EXC " + type(e).__name__ + ": " + str(e)[:60]
            done.append(n)
            s.wake(pa)
            s.wake(pb)
        return body

    def dispatcher(port):
        # the receive (notifier) thread of one network
        def body():
            while True:
                while port.inbox:
                    bus.pump_port(port, 1)
                if len(done) == nclients + 1 and not port.inbox:      # every client and the noise source have finished
                    return
                s.block(port, None)
        return body

    def noise():
        for k, (cid, d) in enumerate(((0x7F0, b"\x01"), (0x000, bytes([1, 99])), (0x70A, b"\x05"))):
            s.point(("noise", k))
            for port in (pa, pb):
                port.inbox.append((None, can.Message(arbitration_id=cid, data=d, is_extended_id=False)))
                s.wake(port)
        done.append("noise")
        s.wake(pa)
        s.wake(pb)
    for n in nodes:
        s.spawn(client(n), "client%d" % n)
    s.spawn(dispatcher(pa), "rx-client-net")
    s.spawn(dispatcher(pb), "rx-server-net")
    s.spawn(noise, "noise")
    return lambda: (tuple(sorted(results.items())), s.deadlock)


def run_sched(case, st):
    def on_exec(s, out):
        results, deadlock = out
        st.evaluations += 1
        st.traces += 1
        st.transitions += len(s.trace)
        if s.pre:
            st.nontrivial_n += 1
        rc = dict(case, schedule=[t[1] for t in s.trace])
        if deadlock:
            st.violation("C03:sched:deadlock", rc, "no deadlock", deadlock)
            return
        if s.hit_horizon:
            st.caps.append("schedule horizon hit")
            return
        for n, r in results:
            if r != "ok":
                st.violation(f"C03:sched:{'wrong-data' if r.startswith('WRONG') else 'exception'}", rc, "every client reads back its own values", results)
                return
        st.outcome("all clients ok")

    root = None
    if case.get("lines"):
        import os
        import canopen
        root = os.path.dirname(os.path.abspath(canopen.__file__))
        if case.get("mini"):
            # quick tier: the modules through which two transfers can share state (SDO client/server, network, nodes)
            root = tuple(os.path.join(root, x) for x in ("sdo", "network.py", "node"))
    mini = bool(case.get("mini"))
    if "schedule" in case:
        on_exec(*vsched.replay(lambda s: sched_harness(case["clients"], s, mini), case, line_root=root, horizon=200000))
        return
    stats = vsched.explore_schedules(lambda s: sched_harness(case["clients"], s, mini), case["P"], on_exec=on_exec, horizon=200000,
                                     first_dev_range=tuple(case["range"]), deviation_cost="deviation", line_root=root)
    if root:
        st.count("line_level_schedules", stats["executions"])
    st.states += stats["executions"]
    st.count("schedules", stats["executions"])
    st.count("schedules_with_preemption", stats["with_preemption"])
    st.count("max_points", 0)
    st.counters["max_points"] = max(st.counters.get("max_points", 0), stats["max_points"])
    st.sample({"sched": case, "schedules": stats["executions"], "points": stats["max_points"]}, cap=4)


def latedup_harness(s):
    import canopen
    import canopen.sdo.client as cl_mod
    vsched.interpose(cl_mod.SdoClient, {"responses"})
    bus = simenv.SimBus("manual")
    a, b = canopen.Network(), canopen.Network()
    bus.attach(a, "client")
    bus.attach(b, "server")
    o, idx = od()
    remote, local = a.add_node(5, o), b.create_node(5, o)
    local.data_store[idx["UNSIGNED16"]] = {0: struct.pack("<H", 0x1234)}
    local.data_store[idx["UNSIGNED32"]] = {0: struct.pack("<L", 0xCAFEBABE)}
    res = {}
    done = []
    dup = {"sent": False}

    def client():
        try:
            r1 = remote.sdo["T_UNSIGNED16"].raw
            r2 = remote.sdo["T_UNSIGNED32"].raw
            res["c"] = "ok" if (r1, r2) == (0x1234, 0xCAFEBABE) else f"WRONG {r1:#x} {r2:#x}"
        except canopen.SdoCommunicationError as e:
            res["c"] = "SdoCommunicationError"
        except Exception as e:  # noqa: BLE001
            res["c"] = "EXC " + type(e).__name__ + ": " + str(e)[:60]
        done.append(1)
        s.wake(bus)

    def dispatcher():
        while True:
            while bus.pending:
                src, msg = bus.pending[0]
                # the first SDO response is duplicated by the bus (late copy behind it)
                if not dup["sent"] and msg.arbitration_id == 0x585:
                    dup["sent"] = True
                    bus.pending.insert(1, (src, bus._copy(msg)))
                bus.pump(1)
            if done and not bus.pending:
                return
            s.block(bus, None)
    s.spawn(client, "client")
    s.spawn(dispatcher, "dispatcher")
    return lambda: (res.get("c"), s.deadlock)


def run_latedup(case, st):
    def on_exec(s, out):
        r, deadlock = out
        st.evaluations += 1
        st.traces += 1
        st.transitions += len(s.trace)
        if s.pre:
            st.nontrivial_n += 1
        rc = dict(case, schedule=[t[1] for t in s.trace])
        if deadlock:
            st.violation("C03:late-dup:deadlock", rc, "no deadlock", deadlock)
        elif r not in ("ok", "SdoCommunicationError"):
            st.violation(f"C03:late-dup:{'wrong-data' if str(r).startswith('WRONG') else 'exception'}", rc,
                         "correct values or SdoCommunicationError", r)
        st.outcome(f"late-dup -> {r if r in ('ok', 'SdoCommunicationError') else 'bad'}")

    if "schedule" in case:
        simenv.new_world()
        s = vsched.Scheduler(case["schedule"], horizon=20000)
        result = latedup_harness(s)
        s.run()
        on_exec(s, result())
        return
    stats = vsched.explore_schedules(latedup_harness, case["P"], on_exec=on_exec, horizon=20000,
                                     first_dev_range=tuple(case["range"]), deviation_cost="deviation")
    st.states += stats["executions"]
    st.count("schedules", stats["executions"])
    st.count("schedules_with_preemption", stats["with_preemption"])


def inline_harness(s):
    import canopen
    simenv.new_world()
    a, b = canopen.Network(), canopen.Network()
    # each network's outgoing frames are handed to the other network in the sending thread
    a.send_message = lambda cid, data, remote=False: b.notify(cid, bytearray(data), 0.0)
    b.send_message = lambda cid, data, remote=False: a.notify(cid, bytearray(data), 0.0)
    o, idx = od()
    remote = {n: a.add_node(n, o) for n in (5, 6)}
    local = {n: b.create_node(n, o) for n in (5, 6)}
    local[5].sdo["T_UNSIGNED32"].raw = 0x55555555
    local[6].sdo["T_UNSIGNED32"].raw = 0x66666666
    res = {}

    def one():
        try:
            res[5] = [remote[5].sdo["T_UNSIGNED32"].raw]
        except Exception as e:  # noqa: BLE001
            res[5] = "EXC " + type(e).__name__ + ": " + str(e)[:60]

    def two():
        try:
            r1 = remote[6].sdo["T_UNSIGNED32"].raw
            remote[6].sdo["T_UNSIGNED16"].raw = 0x6666
            res[6] = [r1, remote[6].sdo["T_UNSIGNED16"].raw, local[6].sdo["T_UNSIGNED16"].raw]
        except Exception as e:  # noqa: BLE001
            res[6] = "EXC " + type(e).__name__ + ": " + str(e)[:60]
    s.spawn(one, "client5")
    s.spawn(two, "client6")
    return lambda: (res.get(5), res.get(6), s.deadlock)


def run_inline_threads(case, st):
    import os
    import canopen
    root = os.path.dirname(os.path.abspath(canopen.__file__))
    root = (os.path.join(root, "network.py"),) if case["scope"] == "network" else \
        tuple(os.path.join(root, x) for x in ("sdo", "network.py", "node"))

    def on_exec(s, out):
        r5, r6, deadlock = out
        st.evaluations += 1
        st.traces += 1
        st.transitions += len(s.trace)
        if s.pre:
            st.nontrivial_n += 1
        rc = dict(case, schedule=[t[1] for t in s.trace])
        if deadlock:
            st.violation("C03:inline-threads:deadlock", rc, "no deadlock", deadlock)
        elif s.hit_horizon:
            st.caps.append("schedule horizon hit")
        elif r5 != [0x55555555] or r6 != [0x66666666, 0x6666, 0x6666]:
            bad = "exception" if isinstance(r5, str) or isinstance(r6, str) else "wrong-data"
            st.violation(f"C03:inline-threads:{bad}", rc, "each client reads its own node's values", [r5, r6])
        else:
            st.outcome("inline threads ok")

    if "schedule" in case:
        on_exec(*vsched.replay(inline_harness, case, line_root=root, horizon=200000))
        return
    stats = vsched.explore_schedules(inline_harness, case["P"], on_exec=on_exec, horizon=200000,
                                     first_dev_range=tuple(case["range"]), line_root=root)
    st.states += stats["executions"]
    st.count("inline_thread_schedules", stats["executions"])
    st.count("schedules_with_preemption", stats["with_preemption"])
    st.counters["inline_max_points:" + case["scope"]] = max(st.counters.get("inline_max_points:" + case["scope"], 0), stats["max_points"])


def run_case(case, st):
    if case["part"] == "inline-threads":
        return run_inline_threads(case, st)
    {"after-failure": run_after_failure, "codepoints": run_codepoints, "ints": run_ints, "other": run_other, "strings": run_strings, "access": run_access, "sched": run_sched,
     "late-dup": run_latedup}[case["part"]](case, st)


def finish(st, tier):
    if not st.counters.get("schedules_with_preemption") and not st.violations:
        raise simenv.HarnessError("no schedule with a preemption explored")
    if st.outcomes.get("ints ok", 0) < 30 and not st.violations:
        raise simenv.HarnessError("integer enumeration incomplete")
