"""C12 — SDO block download delivers exactly the payload or fails visibly.

Explorer A: the real client's block download against the strict reference block server with a
plan of block sizes; every client->server segment (first transmissions and retransmissions) is
a choice point {deliver, drop}; all executions with at most D drops run to completion.
"""
import itertools
import struct

from mc import kernel, simenv
from mc.refs.sdo_server import StrictSdoServer
from mc.sdoharness import RefLink

ID = "C12"
LEVEL = "fault_enumeration"
EXHAUSTIVE = True
RULE = ("case = payload length x block-size plan (all sequences over the block-size alphabet as long as the transfer "
        "needs for short payloads, constant/alternating plans above) x CRC negotiation {granted, refused, not requested} x "
        "server behaviour on a stalled sub-block {silent, acknowledges what it got}; + an undisturbed earlier download on the "
        "same / another client object; + payload written in pieces through buffered writers of size 8..1024; + undisturbed "
        "sweep of every length 65..1800 (3600) with plan / CRC / payload family rotating and 7100..20000 (70000) bytes in "
        "one write with small blocks; within a case every set of <= D "
        "dropped segments (incl. retransmitted ones); non-trivial = executions with >= 1 drop or >= 2 sub-blocks")
ASSUMPTIONS = [
    "the CRC field of the end frame is compared only when both sides negotiated CRC",
    "any exception type counts as 'fails visibly'",
    "a single loss must be repaired when the lost segment is neither the last of its sub-block nor in the final sub-block (other repairs are allowed, not demanded)",
    "frame legality of the client is judged on undisturbed transfers and on transfers that return normally",
]
MUX = (0x2000, 0)


def bounds(tier):
    return {"lengths": "1..36 + 7k,7k+-1 up to 64" + (" + {888,889,890,1778,10000}" if tier == "thorough" else ""),
            "block_sizes": [1, 2, 127] if tier == "quick" else [1, 2, 3, 5, 127],
            "max_drops": "1 (2 for n<=22)" if tier == "quick" else "3 for n<=15, 2 for n<=64, 1 above"}


def cases(tier, seed):
    out = []
    alpha = (1, 2, 127) if tier == "quick" else (1, 2, 3, 5, 127)
    lens = list(range(1, 37)) + [41, 42, 43, 48, 49, 50, 55, 56, 57, 62, 63, 64]
    for n in lens:
        nseg = (n + 6) // 7
        if n <= 36:
            plans = list(itertools.product(alpha, repeat=min(nseg, 3 if tier == "quick" else 4)))
        else:
            plans = [(127,), (1,), (2, 3), (5, 1, 127), (3,)]
        for pi, plan in enumerate(plans):
            for ci, crc in enumerate(("granted", "refused", "not-requested")):
                stall = ("silent", "ack")[(pi + ci + n) % 2]
                D = (2 if n <= 22 else 1) if tier == "quick" else (3 if n <= 15 else 2)
                if D == 2 and tier == "quick" and crc != "granted":
                    D = 1
                out.append({"n": n, "plan": list(plan), "crc": crc, "stall": stall, "D": D, "seed": seed})
                if n in (8, 15, 22) or tier == "thorough":
                    out.append({"n": n, "plan": list(plan), "crc": crc, "stall": ("ack", "silent")[(pi + ci + n) % 2],
                                "D": D, "seed": seed})
    # histories: an undisturbed block download earlier in the same process (on another client object and network, or
    # on the same client) before the disturbed one
    for n in ((8, 15, 22) if tier == "quick" else (8, 15, 22, 29, 36, 50)):
        for pre in ("other", "same", "failed-same"):
            for pre_n in (15, 3):
                for plan in ((127,), (2,), (3, 1)):
                    for crc in ("granted", "not-requested"):
                        out.append({"n": n, "plan": list(plan), "crc": crc, "stall": "ack", "D": 1 if tier == "quick" else 2,
                                    "seed": seed, "pre": pre, "pre_n": pre_n})
    # the payload handed over in pieces through the buffered writer (buffer smaller than the payload: it is recycled)
    for n, bufs, pieces in ((22, (2, 3, 5, 7, 8, 13, 14, 16), tuple(range(1, 18))), (36, (2, 3, 7, 8, 13, 16), (1, 5, 6, 7, 8, 10, 13, 29)),
                            (64, (8, 16), (5, 10, 33)), (150, (16, 64), (10, 100)),
                            (3000, (None,), (100, 1023)), (2100, (None, 512), (1025, 7, 1024, 2099))):
        for buf in bufs:
            for piece in pieces:
                for crc in ("granted", "not-requested"):
                    out.append({"n": n, "plan": [127] if n > 100 else [3, 127], "crc": crc, "stall": "ack",
                                "D": 1 if n <= 64 or tier == "thorough" and n <= 150 else 0, "seed": seed,
                                "buffering": buf, "piece": piece})
    # length sweep: every length up to two full 127-segment blocks (thorough: four), undisturbed, block-size plan / CRC /
    # payload family rotating with the length; long transfers in one write() with small blocks
    top = 1800 if tier == "quick" else 3600
    plans_sw = ([127], [1], [2, 3], [5, 1, 127], [126, 3], [64])
    for n in range(65, top + 1):
        out.append({"n": n, "plan": plans_sw[n % len(plans_sw)] if n % 6 != 1 or n < 300 else [127], "crc": ("granted", "not-requested", "refused")[(n // 2) % 3],
                    "stall": "ack", "D": 0, "seed": seed, "fill": simenv.FILLS[(n // 3) % len(simenv.FILLS)]})
    for n, plan in ((7100, [1]), (10000, [1]), (10000, [2, 1]), (20000, [7, 3, 5])) + (((70000, [7, 3, 5]), (70000, [127])) if tier == "thorough" else ()):
        out.append({"n": n, "plan": plan, "crc": "granted", "stall": "ack", "D": 0, "seed": seed})
    # timing attributes set by the application: a slow (conformant) server that needs longer than the default time-out
    # for every answer, and a client whose RESPONSE_TIMEOUT was raised accordingly (on the instance / on the class)
    for n in (8, 22, 64, 900):
        for how in ("instance", "class"):
            for crc in ("granted", "not-requested"):
                out.append({"n": n, "plan": [3, 127], "crc": crc, "stall": "silent", "D": 0, "seed": seed, "slow": 0.5,
                            "timeout": 3.0, "timeout_on": how})
    if tier == "thorough":
        for n in (888, 889, 890, 1778, 10000):
            for plan in ((127,), (1,), (2, 3), (5, 1, 127), (126, 3)):
                for crc in ("granted", "refused", "not-requested"):
                    if plan == (1,) and n > 2000:
                        continue
                    out.append({"n": n, "plan": list(plan), "crc": crc, "stall": "ack", "D": 1 if n < 2000 else 0,
                                "seed": seed})
    k = seed % len(out)
    return out[k:] + out[:k]


def one(case, ch):
    n = case["n"]
    payload = simenv.fill(n, case.get("seed", 0), case.get("fill", "pattern"))
    srv = StrictSdoServer(5, blk_plan=tuple(case["plan"]), crc=case["crc"] != "refused")
    srv.expected_mux = struct.pack("<HB", *MUX)
    state = {"seg": 0, "drops": []}

    def req_filter(f):
        st = srv.st
        if st and st["kind"] == "bdl" and st["phase"] == "seg" and f[0] != 0x80:
            state["seg"] += 1
            if ch.choose(2, f"segment{state['seg']}"):
                state["drops"].append((state["seg"], f[0] & 0x7F, st["blksize"], bool(f[0] & 0x80),
                                       st.get("blocks_done", 0)))
                return False
        return True

    def idle(link):
        # the client is waiting; a server whose sub-block stalled may acknowledge what it has (its own time-out)
        st = srv.st
        if case["stall"] == "ack" and st and st["kind"] == "bdl" and st["phase"] == "seg" and state.get("stalled") != id(st) \
                and not state.get("acked_once_for") == (st["next"], len(st["segs"])):
            state["acked_once_for"] = (st["next"], len(st["segs"]))
            link.from_server(srv.bdl_ack())

    state["armed"] = True
    if case.get("pre") == "other":
        psrv = StrictSdoServer(6, blk_plan=(127,), crc=True)
        psrv.expected_mux = struct.pack("<HB", 0x2001, 0)
        plink = RefLink(psrv, node_id=6)
        with plink.node.sdo.open(0x2001, 0, "wb", size=case["pre_n"], block_transfer=True) as fp:
            fp.write(simenv.pattern(case["pre_n"], 77))
    def pre_filter(f):
        # the failing predecessor loses the LAST segment of its (only) sub-block: the client gives up visibly
        if case.get("pre") == "failed-same" and srv.st and srv.st["kind"] == "bdl" and srv.st["phase"] == "seg" and f[0] & 0x80 \
                and f[0] != 0x80:
            return False
        return True
    link = RefLink(srv, req_filter=lambda f: req_filter(f) if state.get("main") else pre_filter(f),
                   idle=lambda l: idle(l) if state.get("main") else None)
    if case.get("pre") == "failed-same":
        import canopen as _c
        try:
            with link.node.sdo.open(MUX[0], MUX[1], "wb", size=case["pre_n"], block_transfer=True) as fp:
                fp.write(simenv.pattern(case["pre_n"], 77))
            raise simenv.HarnessError("the predecessor with a lost last segment did not fail")
        except (_c.SdoCommunicationError, _c.SdoAbortedError):
            pass
        # (no reset of the reference server here: the client's own abort must have ended the transfer there)
        srv.store.pop(MUX, None)
        del srv.commits[:], srv.completed[:], srv.violations[:]
        link.client_frames[:] = []
        simenv.W.timeouts = 0
    if case.get("pre") == "same":
        with link.node.sdo.open(MUX[0], MUX[1], "wb", size=case["pre_n"], block_transfer=True) as fp:
            fp.write(simenv.pattern(case["pre_n"], 77))
        if srv.store.get(MUX) != simenv.pattern(case["pre_n"], 77) or srv.violations:
            raise simenv.HarnessError(f"predecessor download failed: {srv.violations[:1]}")
        del srv.commits[:], srv.completed[:]
        link.client_frames[:] = []
        simenv.W.timeouts = 0
    state["main"] = True
    err = None
    restore = None
    if case.get("slow"):
        link.delay = case["slow"]
        if case["timeout_on"] == "instance":
            link.node.sdo.RESPONSE_TIMEOUT = case["timeout"]
        else:
            cls = type(link.node.sdo)
            restore = (cls, cls.RESPONSE_TIMEOUT)
            cls.RESPONSE_TIMEOUT = case["timeout"]
    try:
        kw = {} if case.get("buffering") is None else {"buffering": case["buffering"]}
        with link.node.sdo.open(MUX[0], MUX[1], "wb", size=n, block_transfer=True,
                                request_crc_support=case["crc"] != "not-requested", **kw) as fp:
            piece = case.get("piece") or max(n, 1)
            for a in range(0, max(n, 1), piece):
                fp.write(payload[a:a + piece])
    except Exception as e:  # noqa: BLE001
        err = e
    if restore is not None:
        restore[0].RESPONSE_TIMEOUT = restore[1]
    committed = [c for c in srv.commits]
    return dict(err=err, payload=payload, commits=committed, stored=srv.store.get(MUX), viol=list(srv.violations),
                drops=state["drops"], nseg=state["seg"], timeouts=simenv.W.timeouts, frames=link.client_frames, completed=list(srv.completed))


def must_repair(case, drops):
    """Single loss of a segment that is not the last of its sub-block, in a non-final sub-block."""
    if len(drops) != 1:
        return False
    idx, seq, blksize, cflag, _ = drops[0]
    nseg = (case["n"] + 6) // 7
    if cflag or seq == blksize:
        return False
    # is the sub-block final?  first-transmission layout from the plan
    plan = case["plan"]
    first, bi = 1, 0
    while True:
        b = plan[bi % len(plan)]
        last = min(first + b - 1, nseg)
        if first <= idx <= last:
            return last != nseg and idx != last
        first = last + 1
        bi += 1
        if first > nseg:
            return False


def run_case(case, st):
    def on_exec(ch, r):
        st.evaluations += 1
        drops = r["drops"]
        nblocks = sum(1 for f in r["frames"] if False)
        rc = dict(case, choices=ch.choices)
        if drops or len(case["plan"]) and (case["n"] + 6) // 7 > case["plan"][0]:
            st.nontrivial_n += 1
        ok_commit = r["commits"] == [(struct.pack("<HB", *MUX), r["payload"])] and r["stored"] == r["payload"]
        tag = f"{case['crc']}:{case['stall']}"
        chain, e = [], r["err"]
        while e is not None and len(chain) < 8:
            chain.append(e)
            e = e.__context__ or e.__cause__
        if case.get("piece") and any(isinstance(x, BlockingIOError) for x in chain):
            # the raw stream refuses a 1..6 byte remainder in mid-transfer (write() returns None) and the buffered writer
            # has no room to keep it: the call fails (visibly) although nothing disturbed the transfer
            st.outcome("piecewise write refused (BlockingIOError)")
            st.violation("C12:piecewise-write:remainder-refused:BlockingIOError", rc, "an undisturbed download returns normally",
                         f"{type(r['err']).__name__} after BlockingIOError; buffering={case.get('buffering')} piece={case['piece']} n={case['n']}")
            if r["commits"] and r["commits"][-1][1] != r["payload"] and type(r["err"]) is None:
                pass
            return
        if r["err"] is None:
            st.outcome(f"drops={len(drops)} returns, committed={ok_commit}")
            if not ok_commit:
                st.violation(f"C12:returns-without-exact-commit:drops{len(drops)}:{tag}", rc, r["payload"].hex()[:60],
                             f"commits={[(m.hex(), d.hex()[:60]) for m, d in r['commits']]} drops={drops}")
            for code, fr, txt in r["viol"][:1]:
                st.violation(f"C12:frame:{code}:drops{len(drops)}:{tag}", rc, "legal CiA 301 block download frames",
                             f"{fr}: {txt} drops={drops}")
            if not drops and r["timeouts"]:
                st.violation(f"C12:undisturbed:client-timed-out:{tag}", rc, "no time-out in an undisturbed transfer",
                             f"{r['timeouts']} virtual time-outs")
            if "blk-dl" not in r["completed"]:
                st.violation(f"C12:not-closed:drops{len(drops)}:{tag}", rc, "end of block download confirmed", r["completed"])
        else:
            st.outcome(f"drops={len(drops)} raises {type(r['err']).__name__}")
            if not drops:
                st.violation(f"C12:undisturbed-fails:{type(r['err']).__name__}:{tag}", rc, "returns normally",
                             repr(r["err"])[:150] + f" viol={r['viol'][:1]}")
            elif must_repair(case, drops):
                st.violation(f"C12:single-inner-loss-not-repaired:{type(r['err']).__name__}:{tag}", rc,
                             "retransmission repairs the sub-block", repr(r["err"])[:150] + f" drops={drops}")
            if r["commits"] and r["commits"][-1][1] != r["payload"]:
                st.count("failed-call-with-wrong-commit (allowed: the call failed visibly)")
        if not drops and r["err"] is None and not hasattr(run_case, "_x"):
            pass

    res = kernel.explore_choices(lambda ch: one(case, ch), case["D"], on_exec, fixed=case.get("choices"))
    st.max_dev = case["D"] if st.max_dev is None else max(st.max_dev, case["D"])
    st.count("choice_points", res["choice_points"])
    st.sample({"case": case, "executions": res["executions"]}, cap=4)


def finish(st, tier):
    if not any(k.startswith("drops=1 returns, committed=True") for k in st.outcomes) and not st.violations:
        raise simenv.HarnessError("vacuous: no single loss was ever repaired")
    if not any("raises" in k for k in st.outcomes) and not st.violations:
        raise simenv.HarnessError("vacuous: no loss pattern ever made the call fail")
