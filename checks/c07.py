"""C07 — a disturbed SDO transfer fails loudly and does not poison the next one.

Explorer A (choice-point DFS, deviation bound D): the real SdoClient talks to the real SdoServer
(expedited / segmented) or to the strict reference server (all kinds incl. block); every
server->client frame is a choice point {deliver, lost, late (after the client's time-out), abort
instead, toggle flipped, scs replaced, multiplexer replaced, duplicated, stale frame first}, every
client request and the start of the transfer are choice points for an injected stale frame.  All
executions with at most D deviations run to completion; each is followed by undisturbed
transfers of every kind on the same client and server.
"""
import struct

from mc import kernel, simenv
from mc.refs.sdo_server import StrictSdoServer
from mc.sdoharness import build_od

ID = "C07"
LEVEL = "fault_enumeration"
EXHAUSTIVE = True
RULE = ("case = server {real, reference} x transfer kind {expedited/segmented/block x download/upload} x payload length x "
        "delivery {inline, deferred}; within a case every choice vector with <= D non-default choices over the fault "
        "alphabet at every protocol step is executed; non-trivial = executions with >= 1 deviation (distinct by case and "
        "choice vector)")
ASSUMPTIONS = [
    "undetectable by protocol (excluded by construction, counted): a stale segment response whose toggle (or block sequence number) equals the expected one; stale initiate responses use a different multiplexer",
    "before the follow-up transfers everything still in flight is delivered (late frames land between transfers, not inside the follow-up) and the reference server's own SDO time-out has dropped a half-finished transfer",
    "time-outs are virtual; a lost frame means the client waits its full RESPONSE_TIMEOUT",
    "the time-out-abort clause is demanded when, after the lost (or late) response, no further frame reached the client during that transfer and the call ended in an SdoCommunicationError (the client gave up waiting)",
]
ENTRIES = [
    dict(index=0x2000, name="dom", type="DOMAIN", default=None),
    dict(index=0x2001, name="dom2", type="DOMAIN", default=None),
    dict(index=0x2002, name="u16", type="UNSIGNED16", default=0x1234),
]
MUX = struct.pack("<HB", 0x2000, 0)
OTHER = struct.pack("<HB", 0x2001, 0)
STALE = [
    ("ul-init-exp", bytes([0x43]) + OTHER + b"\x09\x09\x09\x09"),
    ("dl-init", bytes([0x60]) + OTHER + bytes(4)),
    ("ul-init-exp-sub", bytes([0x43]) + MUX[:2] + b"\x01" + b"\x09\x09\x09\x09"),     # same index, other sub-index
    # the late answer of an earlier transfer on the SAME object: only the client's flush before it sends can tell
    ("ul-init-exp-same", bytes([0x43]) + MUX + b"\x09\x09\x09\x09"),
    ("dl-init-same", bytes([0x60]) + MUX + bytes(4)),
    ("dl-init-sub", bytes([0x60]) + MUX[:2] + b"\x01" + bytes(4)),
    ("ul-seg-t0", bytes([0x00]) + b"\x09" * 7),
    ("ul-seg-t1", bytes([0x10]) + b"\x09" * 7),
    ("dl-seg-t0", bytes([0x20]) + bytes(7)),
    ("dl-seg-t1", bytes([0x30]) + bytes(7)),
    ("ul-init-seg", bytes([0x41]) + OTHER + struct.pack("<L", 20)),
    ("blk-dl-init", bytes([0xA4]) + OTHER + bytes([5, 0, 0, 0])),
    ("blk-ul-init", bytes([0xC6]) + OTHER + struct.pack("<L", 20)),
    ("blk-ack", bytes([0xA2, 1, 5]) + bytes(5)),
    ("blk-ul-end", bytes([0xC1, 0x12, 0x34]) + bytes(5)),
]
KINDS_REAL = ["exp-dl", "seg-dl", "exp-ul", "seg-ul"]
KINDS_REF = ["exp-dl", "seg-dl", "exp-ul", "seg-ul", "seg-ul-nosize", "blk-dl", "blk-ul"]


def bounds(tier):
    return {"max_deviations": 1 if tier == "quick" else 2,
            "lengths": "{1,4,5,7,8,14,15}; block: {1,7,8,15,22}" + ("" if tier == "quick" else " + {889, 890}"),
            "fault_alphabet": ["lost", "late", "abort", "toggle", "scs", "mux", "mux-hi", "mux-sub", "dup"] + ["stale:" + s[0] for s in STALE]}


def cases(tier, seed):
    out = []
    D = 1 if tier == "quick" else 2
    for server, kinds in (("real", KINDS_REAL), ("ref", KINDS_REF)):
        for kind in kinds:
            if kind.startswith("exp"):
                lens = [1, 2, 4]
            elif kind.startswith("blk"):
                lens = [1, 7, 8, 15, 22] + ([889, 890] if tier == "thorough" else [])
            else:
                lens = [5, 7, 8, 14, 15] + ([0, 21] if tier == "thorough" else [])
            for n in lens:
                for mode in ("inline", "deferred"):
                    d = D if n < 100 else 1
                    out.append({"server": server, "kind": kind, "n": n, "mode": mode, "D": d, "seed": seed})
    # a client that pauses before every request (PAUSE_BEFORE_SEND): stale frames arrive during the pause
    for server, kinds in (("real", KINDS_REAL), ("ref", KINDS_REF)):
        for kind in kinds:
            n = 2 if kind.startswith("exp") else 15
            out.append({"server": server, "kind": kind, "n": n, "mode": "inline", "D": 1, "seed": seed, "pause": 0.05})
    # several lost responses in one transfer (e.g. a lost segment and its lost retransmission): loss-only alphabet
    for server, kinds in (("real", KINDS_REAL), ("ref", KINDS_REF)):
        for kind in kinds:
            for n in ([2] if kind.startswith("exp") else ([8, 15, 22] if kind.startswith("blk") else [8, 15])):
                out.append({"server": server, "kind": kind, "n": n, "mode": "inline", "D": 2 if tier == "quick" else 3,
                            "seed": seed, "loss_only": True})
    k = seed % len(out)
    return out[k:] + out[:k]


class Link:
    """Client network <-> server with a fault layer on the server->client direction."""

    def __init__(self, server, mode, ch, blk_plan=(3,), style="auto", loss_only=False):
        import canopen
        simenv.new_world()
        self.ch = ch
        self.mode = mode
        self.loss_only = loss_only   # only {deliver, lost} at response frames (multi-loss exploration)
        self.faults_on = True
        self.pending = []            # frames on their way to the client (deferred mode)
        self.late = []               # frames withheld until the client has given up
        self.client_frames = []
        self.deviations = []         # (step label, fault name)
        self.step = 0
        self.cnet = canopen.Network()
        self.cnet.bus = _Port(self)
        self.remote = self.cnet.add_node(5, build_od(ENTRIES))
        self.server_kind = server
        if server == "real":
            self.snet = canopen.Network()
            self.snet.bus = _SPort(self)
            self.local = self.snet.create_node(5, build_od(ENTRIES))
            self.ref = None
        else:
            self.ref = StrictSdoServer(5, style=style, blk_plan=blk_plan, crc=True)
        if mode == "deferred":
            simenv.W.idle_hooks.append(self.pump)
        self.excluded = 0
        self._responses = []
        self.delivered = 0           # frames handed to the client so far
        self.queued_at_loss = None   # frames delivered+pending when a response was lost / withheld

    # -- value access on the server side
    def server_value(self, key):
        if self.ref is not None:
            return self.ref.store.get(key)
        return self.local.data_store.get(key[0], {}).get(key[1])

    def set_server_value(self, key, data):
        if self.ref is not None:
            self.ref.store[key] = data
        else:
            self.local.data_store.setdefault(key[0], {})[key[1]] = data

    # -- client -> server
    def client_send(self, msg):
        f = bytes(msg.data)
        self.client_frames.append(f)
        if self.faults_on and not self.loss_only:
            k = self.ch.choose(1 + len(STALE), f"req{len(self.client_frames)}:stale-after")
            if k:
                name, fr = STALE[k - 1]
                if self._plausible(fr, req=f):
                    self.excluded += 1
                else:
                    self.deviations.append((f"req{len(self.client_frames)}", "stale-after:" + name))
                    self._to_client(fr)
        if self.ref is not None:
            rs = [d for (cid, d) in self.ref.on_frame(0x605, f)]
        else:
            self._responses = []
            self.snet.listeners[0].on_message_received(_msg(0x605, f))
            rs = self._responses
        for r in rs:
            for out in self._fault(bytes(r), f):
                self._to_client(out)
        if self.mode == "inline":
            self.pump()

    def _plausible(self, stale, req=None, real=None):
        """Would the client be unable, by protocol, to tell this stale frame from the expected one?"""
        if stale[0] >> 5 in (2, 3) and stale[1:4] == MUX:
            return True              # an initiate response for the object under transfer, once the request is out
        if real is not None:
            if self._in_block_upload_segments():
                return (stale[0] & 0x7F) == (real[0] & 0x7F)
            scs = real[0] >> 5
            if scs in (0, 1) and stale[0] >> 5 == scs:
                return (stale[0] & 0x10) == (real[0] & 0x10)
            return False
        ccs = req[0] >> 5
        if self.ref is not None and self.ref.st and self.ref.st["kind"] == "bdl" and self.ref.st["phase"] == "seg":
            return False
        if ccs == 3:
            return stale[0] >> 5 == 0 and (stale[0] & 0x10) == (req[0] & 0x10)
        if ccs == 0:
            return stale[0] >> 5 == 1 and (stale[0] & 0x10) == (req[0] & 0x10)
        return False

    def _in_block_upload_segments(self):
        return self.ref is not None and self.ref.st is not None and self.ref.st["kind"] == "bul" and \
            self.ref.st["phase"] == "blocks"

    def _fault(self, r, req):
        self.step += 1
        if not self.faults_on:
            return [r]
        seg_phase = self._in_block_upload_segments() and not (r[0] >> 5 == 6 and (r[0] & 3) in (0, 1) and False)
        scs = r[0] >> 5
        alts = ["deliver", "lost", "late", "abort", "scs", "dup"]
        if self.loss_only:
            label = f"resp{self.step}:loss-only"
            if self.ch.choose(2, label):
                self.deviations.append((label, "lost"))
                self.queued_at_loss = self.delivered + len(self.pending)
                return []
            return [r]
        is_segment_resp = not seg_phase and scs in (0, 1)
        has_mux = not seg_phase and (scs in (2, 3) or (scs in (5, 6) and (r[0] & 3) == 0 and r[1:4] == MUX))
        if is_segment_resp:
            alts.append("toggle")
        if has_mux:
            alts += ["mux", "mux-hi", "mux-sub"]
        alts += ["stale:" + s[0] for s in STALE]
        label = f"resp{self.step}:{'blkseg' if seg_phase else 'scs%d' % scs}"
        k = self.ch.choose(len(alts), label)
        a = alts[k]
        if a == "deliver":
            return [r]
        if a.startswith("stale:"):
            fr = dict(STALE)[a[6:]]
            if self._plausible(fr, real=r):
                self.excluded += 1
                return [r]
            self.deviations.append((label, a))
            return [fr, r]
        self.deviations.append((label, a))
        if a == "lost":
            self.queued_at_loss = self.delivered + len(self.pending)
            return []
        if a == "late":
            self.queued_at_loss = self.delivered + len(self.pending)
            self.late.append(r)
            return []
        if a == "abort":
            return [bytes([0x80]) + (r[1:4] if has_mux else bytes(3)) + struct.pack("<L", 0x06060000)]
        if a == "scs":
            return [bytes([(r[0] + 0x20) & 0xFF]) + r[1:]]
        if a == "dup":
            return [r, r]
        if a == "toggle":
            return [bytes([r[0] ^ 0x10]) + r[1:]]
        if a == "mux":
            return [r[:1] + bytes([r[1] ^ 1]) + r[2:]]
        if a == "mux-hi":
            return [r[:2] + bytes([r[2] ^ 0x10]) + r[3:]]
        if a == "mux-sub":
            return [r[:3] + bytes([r[3] ^ 1]) + r[4:]]
        raise KeyError(a)

    def _to_client(self, frame):
        self.pending.append(frame)

    def pump(self):
        while self.pending:
            fr = self.pending.pop(0)
            self.delivered += 1
            self.cnet.listeners[0].on_message_received(_msg(0x585, fr))

    def settle(self):
        """Between transfers: deliver everything in flight, including late frames."""
        self.pending += self.late
        self.late = []
        self.pump()
        if self.ref is not None:
            self.ref.timeout()


def _msg(can_id, data):
    import can
    return can.Message(arbitration_id=can_id, data=bytes(data), is_extended_id=False, timestamp=simenv.W.now)


class _Port:
    channel_info = "c07 client"

    def __init__(self, link):
        self.link = link

    def send(self, msg):
        simenv.W.now += 0.00025
        self.link.client_send(msg)

    def send_periodic(self, *a, **k):
        raise NotImplementedError

    def shutdown(self):
        pass


class _SPort(_Port):
    channel_info = "c07 server"

    def send(self, msg):
        simenv.W.now += 0.00025
        self.link._responses.append(bytes(msg.data))


def transfer(link, kind, n, salt, key=(0x2000, 0)):
    """Returns (outcome, detail): ok | SdoCommunicationError | SdoAbortedError | WRONG | EXC:<type>."""
    import canopen
    p = simenv.pattern(n, salt)
    sdo = link.remote.sdo
    try:
        if kind in ("exp-dl", "seg-dl"):
            sdo.download(key[0], key[1], p, force_segment=(kind == "seg-dl"))
            got = link.server_value(key)
            return ("ok", None) if got == p else ("WRONG", f"server holds {None if got is None else bytes(got).hex()} want {p.hex()}")
        if kind == "blk-dl":
            with sdo.open(key[0], key[1], "wb", size=n, block_transfer=True) as fp:
                fp.write(p)
            got = link.server_value(key)
            return ("ok", None) if got == p else ("WRONG", f"server holds {None if got is None else bytes(got).hex()[:60]} want {p.hex()[:60]}")
        link.set_server_value(key, p)
        if kind == "blk-ul":
            with sdo.open(key[0], key[1], "rb", block_transfer=True) as fp:
                got = fp.read()
        else:
            got = sdo.upload(key[0], key[1])
        return ("ok", None) if got == p else ("WRONG", f"returned {bytes(got).hex()[:60]} want {p.hex()[:60]}")
    except canopen.SdoCommunicationError as e:
        return "SdoCommunicationError", str(e)[:60]
    except canopen.SdoAbortedError as e:
        return "SdoAbortedError", str(e)[:60]
    except Exception as e:  # noqa: BLE001
        return "EXC:" + type(e).__name__, repr(e)[:100]


FOLLOW = [("seg-dl", 9), ("seg-ul", 9), ("exp-dl", 2), ("exp-ul", 3)]


def one_execution(case, ch):
    kind, n = case["kind"], case["n"]
    style = "seg_nos" if kind == "seg-ul-nosize" else ("seg_s" if kind == "seg-ul" and case["server"] == "ref" else "auto")
    link = Link(case["server"], case["mode"], ch, style=style, loss_only=bool(case.get("loss_only")))
    if kind.startswith("exp-ul") and case["server"] == "ref":
        link.ref.style = "exp_s"
    # stale frame already waiting before the transfer starts
    k = 0 if case.get("loss_only") else ch.choose(1 + len(STALE), "start:stale-before-request")
    if case.get("pause"):
        link.remote.sdo.PAUSE_BEFORE_SEND = case["pause"]      # a client configured to pause before every request
    if k and case.get("pause"):
        # the stale frame arrives while the client pauses before its first request
        link.deviations.append(("start", "stale-during-pause:" + STALE[k - 1][0]))
        fired = []

        def during_pause():
            if not fired:
                fired.append(1)
                link._to_client(STALE[k - 1][1])
                link.pump()
        simenv.W.idle_hooks.append(during_pause)
    elif k:
        link.deviations.append(("start", "stale-before-request:" + STALE[k - 1][0]))
        link._to_client(STALE[k - 1][1])
        link.pump()
    tk = "seg-ul" if kind == "seg-ul-nosize" else kind
    res = transfer(link, tk, n, case.get("seed", 0))
    frames_main = list(link.client_frames)
    silent_after_loss = link.queued_at_loss is not None and link.delivered + len(link.pending) == link.queued_at_loss
    link.faults_on = False
    link.settle()
    if link.ref is not None:
        link.ref.style = "auto"
    follow = []
    for fk, fn in FOLLOW + ([("blk-dl", 16), ("blk-ul", 16)] if case["server"] == "ref" else []):
        r = transfer(link, fk, fn, case.get("seed", 0) + 3, key=(0x2001, 0) if fk.endswith("dl") or True else (0x2000, 0))
        follow.append((fk, r[0], r[1]))
        link.settle()
    timeout_abort = any(f[0] == 0x80 and f[4:8] == struct.pack("<L", 0x05040000) for f in frames_main)
    return res, link.deviations, follow, timeout_abort, link.excluded, silent_after_loss


def run_case(case, st):
    D = case["D"]

    def run(ch):
        return one_execution(case, ch)

    def on_exec(ch, out):
        res, devs, follow, timeout_abort, excluded, silent = out
        st.evaluations += 1
        if excluded and not devs:
            st.exclude("stale frame indistinguishable from the expected response (matching toggle / sequence number)")
            return
        if devs:
            st.nontrivial_n += 1
        rc = dict(case, choices=ch.choices)
        fnames = "+".join(sorted({d[1].split(":")[0] for d in devs})) or "none"
        where = "+".join(d[0].split(":")[1] if ":" in d[0] else d[0] for d in devs) or "-"
        kind = case["kind"] + "@" + case["server"]
        st.outcome(f"{fnames} -> {res[0]}")
        if res[0] == "WRONG":
            st.violation(f"C07:wrong-data:{kind}:{fnames}", rc, "exact data or an SDO error", f"{res[1]} after {devs}")
        elif res[0].startswith("EXC"):
            st.violation(f"C07:{res[0]}:{kind}:{fnames}", rc, "SdoCommunicationError/SdoAbortedError", f"{res[1]} after {devs}")
        elif not devs and res[0] != "ok":
            st.violation(f"C07:undisturbed-fails:{kind}", rc, "ok", res)
        only_losses = all(d[1] in ("lost", "late") for d in devs)
        if silent and only_losses and res[0] == "SdoCommunicationError" and not timeout_abort:
            st.violation(f"C07:no-timeout-abort:{kind}:{where}", rc,
                         "client emits an abort with code 0x05040000 when it gives up waiting", f"{res} after {devs}")
        for fk, r0, r1 in follow:
            if r0 != "ok":
                st.violation(f"C07:followup-fails:{fk}:after:{kind}:{fnames}", rc, "follow-up transfer completes correctly",
                             f"{r0} {r1} after {devs} -> {res[0]}")
                break

    fixed = case.get("choices")
    r = kernel.explore_choices(run, D, on_exec, fixed=fixed)
    st.max_dev = D if st.max_dev is None else max(st.max_dev, D)
    st.count("choice_points", r["choice_points"])
    st.sample({"case": {k: case[k] for k in ("server", "kind", "n", "mode", "D")}, "executions": r["executions"]}, cap=5)


def finish(st, tier):
    need = ["lost -> SdoCommunicationError", "abort -> SdoAbortedError", "none -> ok", "dup -> ok"]
    missing = [n for n in need if n not in st.outcomes]
    if missing and not st.violations:
        raise simenv.HarnessError("vacuous: outcomes never observed: %s" % missing)
