"""DESIGN PROBE (throw-away): enumerate PDO layouts of 1..2 fields (+ a prefix pad) against a bit-field reference;
classify failures by root cause to design violation signatures."""
import sys, struct, collections, logging, itertools
sys.path.insert(0, "/repo")
import canopen
from canopen.objectdictionary import ODVariable, ODRecord, ODArray, ObjectDictionary, datatypes as dt
logging.disable(logging.CRITICAL)
TYPES = {"BOOLEAN": (dt.BOOLEAN, 8, False), "INTEGER8": (dt.INTEGER8, 8, True), "UNSIGNED8": (dt.UNSIGNED8, 8, False)}
for w in (16, 24, 32, 40, 48, 56, 64):
    TYPES["INTEGER%d" % w] = (getattr(dt, "INTEGER%d" % w), w, True); TYPES["UNSIGNED%d" % w] = (getattr(dt, "UNSIGNED%d" % w), w, False)
TYPES["REAL32"] = (dt.REAL32, 32, None); TYPES["REAL64"] = (dt.REAL64, 64, None)
def mkod():
    od = ObjectDictionary(); idx = {}
    for i, (n, (t, w, sg)) in enumerate(TYPES.items()):
        v = ODVariable(n, 0x2000 + i); v.data_type = t; od.add_object(v); idx[n] = 0x2000 + i
    v = ODVariable("PAD", 0x2100); v.data_type = dt.UNSIGNED8; od.add_object(v); idx["PAD"] = 0x2100
    r = ODRecord("com", 0x1800)
    for s_, (n, t) in enumerate([("n", dt.UNSIGNED8), ("cob", dt.UNSIGNED32), ("tt", dt.UNSIGNED8)]):
        x = ODVariable(n, 0x1800, s_); x.data_type = t; r.add_member(x)
    od.add_object(r)
    a = ODArray("map", 0x1A00)
    for s_ in range(9):
        x = ODVariable("m%d" % s_, 0x1A00, s_); x.data_type = dt.UNSIGNED8 if s_ == 0 else dt.UNSIGNED32; a.add_member(x)
    od.add_object(a); return od, idx
OD, IDX = mkod()
node = canopen.RemoteNode(3, OD); m = node.tpdo[1]
FIELDS = [("BOOLEAN", 1), ("BOOLEAN", 8)] + [("UNSIGNED8", k) for k in range(1, 9)] + [("INTEGER8", k) for k in range(1, 9)] + \
         [(n, w) for n, (t, w, sg) in TYPES.items() if w > 8]
res = collections.Counter(); ex = {}
def note(k, d): res[k] += 1; ex.setdefault(k, d)
def values(name, length):
    t, w, sg = TYPES[name]
    if sg is None: return [0.0, 1.5, -2.0]
    if name == "BOOLEAN": return [False, True]
    if sg: lo, hi = -(1 << (length - 1)), (1 << (length - 1)) - 1
    else: lo, hi = 0, (1 << length) - 1
    return sorted(x for x in {lo, hi, 0, -1 if sg else 1, lo + 1, hi - 1, hi >> 1} if lo <= x <= hi) if length > 8 else list(range(lo, hi + 1))
def enc(name, length, v):
    t, w, sg = TYPES[name]
    if sg is None: return int.from_bytes(struct.pack("<f" if w == 32 else "<d", v), "little")
    return int(v) & ((1 << length) - 1)
def dec(name, length, bits):
    t, w, sg = TYPES[name]
    if sg is None: return struct.unpack("<f" if w == 32 else "<d", bits.to_bytes(w // 8, "little"))[0]
    if name == "BOOLEAN": return bool(bits) if length == 1 else bool(bits)   # struct '?' semantics
    if sg and bits >> (length - 1): bits -= 1 << length
    return bits
total = 0
for pad in range(0, 16):                      # pad bits in front (built from sub-byte UNSIGNED8 fields) -> every bit offset 0..15
    for name, length in FIELDS:
        if pad + length > 64: continue
        m.clear()
        p = pad
        while p > 0:
            k = min(p, 8); m.add_variable(IDX["PAD"], 0, k); p -= k
        var = m.add_variable(IDX[name], 0, length)
        nbytes = (pad + length + 7) // 8
        t, w, sg = TYPES[name]
        aligned = pad % 8 == 0 and length % 8 == 0
        fits = (pad % 8) + length <= w            # field lies inside the object's own container starting at its byte
        cls = "aligned" if aligned else ("inside-container" if fits else "exceeds-container")
        for init in (0x00, 0xFF, 0xA5):
            for v in values(name, length):
                total += 1
                frame0 = bytes([init]) * nbytes
                # --- read
                want_bits = (int.from_bytes(frame0, "little") >> pad) & ((1 << length) - 1)
                m.data = bytearray(frame0)
                try:
                    got = var.raw
                    want = dec(name, length, want_bits)
                    if got != want and not (isinstance(want, float) and want != want):
                        mostneg = sg and want_bits == 1 << (length - 1)
                        note(("read", cls, "float" if sg is None else ("signed" if sg else "unsigned"), "most-negative" if mostneg else "value"), (name, length, pad, hex(init), got, want))
                except Exception as e:
                    note(("read-raises " + type(e).__name__, cls, "float" if sg is None else ("signed" if sg else "unsigned")), (name, length, pad, hex(init), str(e)[:50]))
                # --- write
                m.data = bytearray(frame0)
                try:
                    var.raw = v
                    f0 = int.from_bytes(frame0, "little"); mask = ((1 << length) - 1) << pad
                    wantf = (f0 & ~mask) | (enc(name, length, v) << pad)
                    gotf = int.from_bytes(m.data, "little")
                    if len(m.data) != nbytes: note(("write-changes-frame-length", cls), (name, length, pad, len(m.data), nbytes))
                    elif gotf != wantf:
                        own = (gotf & mask) == (wantf & mask)
                        note(("write", cls, "own-bits-ok" if own else "own-bits-wrong", "others-ok" if (gotf & ~mask) == (wantf & ~mask) else "others-CLOBBERED"), (name, length, pad, hex(init), v, hex(gotf), hex(wantf)))
                except Exception as e:
                    note(("write-raises " + type(e).__name__, cls, "float" if sg is None else ("signed" if sg else "unsigned")), (name, length, pad, hex(init), v, str(e)[:50]))
print("evaluations", total)
for k, n in sorted(res.items(), key=lambda kv: str(kv[0])): print(n, k, "e.g.", ex[k])
