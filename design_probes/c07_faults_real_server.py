"""DESIGN PROBE (throw-away): real SdoClient <-> real SdoServer with one disturbance on the
server->client direction at every step; follow-up undisturbed transfer on the same pair."""
import sys, struct, types, queue as rq, logging, collections
sys.path.insert(0, "/repo")
import canopen
import canopen.sdo.client as cl
from canopen.objectdictionary import ODVariable, ObjectDictionary, datatypes as dt
logging.disable(logging.CRITICAL)

class Clock:
    now = 1000.0
    def time(s): return s.now
    def sleep(s, d): s.now += d
CLK = Clock()
ENV = None
class VQ:
    def __init__(s): s.q = []
    def put(s, x): s.q.append(x)
    def empty(s): return not s.q
    def get(s, block=True, timeout=None):
        if not s.q and ENV: ENV.pump()
        if s.q: return s.q.pop(0)
        CLK.now += timeout or 0; raise rq.Empty
cl.queue = types.SimpleNamespace(Queue=VQ, Empty=rq.Empty); cl.time = CLK

def mkod():
    od = ObjectDictionary()
    for name, idx, t in (("dom", 0x2000, dt.DOMAIN), ("dom2", 0x2001, dt.DOMAIN), ("hb", 0x1017, dt.UNSIGNED16)):
        v = ODVariable(name, idx); v.data_type = t; v.default = 0 if idx == 0x1017 else None; od.add_object(v)
    return od
OD = mkod()
STALE = [bytes([0x43, 0x01, 0x20, 0x00, 9, 9, 9, 9]),      # upload initiate response, other mux
         bytes([0x60, 0x01, 0x20, 0x00, 0, 0, 0, 0]),      # download initiate response, other mux
         bytes([0x00, 9, 9, 9, 9, 9, 9, 9]), bytes([0x10, 9, 9, 9, 9, 9, 9, 9]),   # upload segment resp t0/t1
         bytes([0x20]) + bytes(7), bytes([0x30]) + bytes(7)]                       # download segment resp t0/t1

class Env:
    """two networks; client->server inline; server->client through fault layer, deferred until client blocks"""
    def __init__(s, fault_step=None, fault=None, deferred=True):
        s.cnet = canopen.Network(); s.snet = canopen.Network()
        s.cnet.send_message = s.c_send; s.snet.send_message = s.s_send
        s.remote = s.cnet.add_node(5, OD); s.local = s.snet.create_node(5, OD)
        s.pending = []; s.step = 0; s.fault_step = fault_step; s.fault = fault; s.deferred = deferred
        s.client_frames = []; s.steps_seen = 0
    def c_send(s, can_id, data, remote=False):
        s.client_frames.append(bytes(data))
        if s.fault and s.fault[0] == "stale_after_req" and s.step + 1 == s.fault_step and not getattr(s, "st_done", False):
            s.st_done = True; s.pending.append(STALE[s.fault[1]])
        s.snet.notify(can_id, bytearray(data), 0.0)
        if not s.deferred: s.pump()
    def s_send(s, can_id, data, remote=False):
        s.step += 1; s.steps_seen = s.step
        f = bytes(data); out = [f]
        if s.step == s.fault_step and s.fault:
            k = s.fault[0]
            if k == "lost": out = []
            elif k == "abort": out = [bytes([0x80]) + f[1:4] + struct.pack("<L", 0x06060000)]
            elif k == "toggle": out = [bytes([f[0] ^ 0x10]) + f[1:]]
            elif k == "scs": out = [bytes([(f[0] + 0x20) & 0xFF]) + f[1:]]
            elif k == "mux": out = [f[:1] + bytes([f[1] ^ 1]) + f[2:]]
            elif k == "dup": out = [f, f]
            elif k == "stale_before": out = [STALE[s.fault[1]], f]
        s.pending += out
    def pump(s):
        while s.pending:
            s.cnet.notify(0x585, bytearray(s.pending.pop(0)), 0.0)

def pat(n, salt=0): return bytes(((i * 37 + 11 + salt) % 255) + 1 for i in range(n))
def transfer(env, kind, n, salt=0):
    """returns ('ok', None) / ('err', exc) / ('WRONG', detail)"""
    p = pat(n, salt)
    try:
        if kind == "dl":
            env.remote.sdo.download(0x2000, 0, p)
            got = env.local.data_store.get(0x2000, {}).get(0)
            return ("ok", None) if got == p else ("WRONG", "store %r" % got)
        else:
            env.local.data_store.setdefault(0x2000, {})[0] = p
            got = env.remote.sdo.upload(0x2000, 0)
            return ("ok", None) if got == p else ("WRONG", "got %r" % got)
    except (canopen.SdoCommunicationError, canopen.SdoAbortedError) as e:
        return ("err", type(e).__name__ + ":" + str(e)[:40])
    except Exception as e:
        return ("EXC", type(e).__name__ + ":" + str(e)[:60])
FAULTS = [("lost",), ("abort",), ("toggle",), ("scs",), ("mux",), ("dup",)] + [("stale_before", i) for i in range(6)] + [("stale_after_req", i) for i in range(6)]
summary = collections.Counter(); bad = []
for deferred in (True, False):
  for kind in ("dl", "ul"):
    for n in (1, 4, 5, 7, 8, 14, 15):
        e0 = Env(deferred=deferred); ENV = e0; r0 = transfer(e0, kind, n); nsteps = e0.steps_seen
        assert r0[0] == "ok", (kind, n, r0)
        for step in range(1, nsteps + 1):
            for fault in FAULTS:
                env = Env(step, fault, deferred); ENV = env
                r = transfer(env, kind, n)
                aborted = any(f[0] == 0x80 and f[4:] == struct.pack("<L", 0x05040000) for f in env.client_frames)
                env.fault = None
                follow = []
                for k2 in ("dl", "ul"):
                    follow.append(transfer(env, k2, 9, salt=3)[0])
                key = (fault[0], r[0])
                summary[key] += 1
                if r[0] in ("WRONG", "EXC") or (fault[0] == "lost" and not aborted) or follow != ["ok", "ok"]:
                    bad.append((deferred, kind, n, step, fault, r, "abort0504" if aborted else "no-timeout-abort", follow))
for k, v in sorted(summary.items()): print(k, v)
print("suspicious:", len(bad))
seen = set()
for b in bad:
    sig = (b[1], b[4][0], b[5][0], b[6], tuple(b[7]))
    if sig in seen: continue
    seen.add(sig); print(b)
