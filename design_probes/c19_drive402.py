import canopen, struct, types
from canopen.objectdictionary import ODVariable, ObjectDictionary, datatypes as dt
import canopen.profiles.p402 as p4
from canopen.profiles.p402 import BaseNode402, State402
class Clock:
    now=1000.0
    def monotonic(s): return s.now
    def time(s): return s.now
    def sleep(s,d): s.now+=d
CLK=Clock(); p4.time=CLK
SW={'NOT READY TO SWITCH ON':0x00,'SWITCH ON DISABLED':0x40,'READY TO SWITCH ON':0x21,'SWITCHED ON':0x23,'OPERATION ENABLED':0x27,'QUICK STOP ACTIVE':0x07,'FAULT REACTION ACTIVE':0x0F,'FAULT':0x08}
class Drive:
    AUTO={'NOT READY TO SWITCH ON':'SWITCH ON DISABLED','FAULT REACTION ACTIVE':'FAULT'}
    def __init__(s,state,delay=0,extra=0, qs_auto=False):
        s.state=state; s.trace=[state]; s.cw=0; s.cws=[]; s.delay=delay; s.reads=0; s.extra=extra; s.mode=0; s.supported=0x3EF
        if qs_auto: s.AUTO=dict(s.AUTO); s.AUTO['QUICK STOP ACTIVE']='SWITCH ON DISABLED'
    def go(s,st): s.state=st; s.trace.append(st); s.reads=0
    def auto(s):
        if s.state in s.AUTO:
            if s.reads>=s.delay: s.go(s.AUTO[s.state])
            else: s.reads+=1
    def upload(s,i,si):
        CLK.now+=0.001
        if i==0x6041:
            s.auto()
            sw=SW[s.state] | (0x0010 if s.state in ('READY TO SWITCH ON','SWITCHED ON','OPERATION ENABLED') else 0)
            if s.state in ('QUICK STOP ACTIVE',): pass
            elif s.state not in ('NOT READY TO SWITCH ON','SWITCH ON DISABLED','FAULT','FAULT REACTION ACTIVE'): sw|=0x20
            # note quick stop bit: 1 in RTSO/SO/OE (already in SW table); extra bits
            return struct.pack("<H", sw | s.extra)
        if i==0x6061: return struct.pack("<b", s.mode)
        if i==0x6502: return struct.pack("<L", s.supported)
        raise canopen.SdoAbortedError(0x06020000)
    def download(s,i,si,data,force_segment=False):
        CLK.now+=0.001
        if i==0x6060: s.mode=struct.unpack("<b",data)[0]; s.modew=bytes(data); return
        assert i==0x6040
        cw=struct.unpack("<H",data)[0]; prev=s.cw; s.cw=cw; s.cws.append(cw); st=s.state
        b=cw&0x8F
        if st=='FAULT':
            if cw&0x80 and not prev&0x80: s.go('SWITCH ON DISABLED')
            return
        if st in ('NOT READY TO SWITCH ON','FAULT REACTION ACTIVE'): return
        dv = (cw&0x02)==0            # disable voltage: bit1=0
        qs = (cw&0x06)==0x02         # quick stop: bit2=0, bit1=1
        sd = (cw&0x07)==0x06         # shutdown
        so = (cw&0x0F)==0x07         # switch on (enable op = 0)
        eo = (cw&0x0F)==0x0F         # switch on + enable operation
        if st=='SWITCH ON DISABLED':
            if sd: s.go('READY TO SWITCH ON')
        elif st=='READY TO SWITCH ON':
            if dv or qs: s.go('SWITCH ON DISABLED')
            elif so: s.go('SWITCHED ON')
            elif eo: s.go('SWITCHED ON'); s.go('OPERATION ENABLED')
        elif st=='SWITCHED ON':
            if dv or qs: s.go('SWITCH ON DISABLED')
            elif sd: s.go('READY TO SWITCH ON')
            elif eo: s.go('OPERATION ENABLED')
        elif st=='OPERATION ENABLED':
            if dv: s.go('SWITCH ON DISABLED')
            elif qs: s.go('QUICK STOP ACTIVE')
            elif sd: s.go('READY TO SWITCH ON')
            elif so: s.go('SWITCHED ON')
        elif st=='QUICK STOP ACTIVE':
            if dv: s.go('SWITCH ON DISABLED')
            elif eo: s.go('OPERATION ENABLED')
def mkod():
    od=ObjectDictionary()
    for n,i,t in (("cw",0x6040,dt.UNSIGNED16),("sw",0x6041,dt.UNSIGNED16),("mode",0x6060,dt.INTEGER8),("moded",0x6061,dt.INTEGER8),("sup",0x6502,dt.UNSIGNED32)):
        v=ODVariable(n,i); v.data_type=t; od.add_object(v)
    return od
OD=mkod()
def run(start,target,delay=0,extra=0,qs_auto=False):
    CLK.now=1000.0
    n=BaseNode402(3,OD); d=Drive(start,delay,extra,qs_auto); n.sdo.upload=d.upload; n.sdo.download=d.download
    try:
        n.state=target; res="ok"
    except Exception as e: res=type(e).__name__+": "+str(e)[:50]
    return res,d
states=list(SW)
import logging; logging.disable(logging.CRITICAL)
for extra in (0,0xFF80&~0x0000):
  for delay in (0,1,3):
    for start in states:
        for target in states:
            res,d=run(start,target,delay,extra)
            refused = target in ('NOT READY TO SWITCH ON','FAULT','FAULT REACTION ACTIVE')
            oe_ok = target in ('OPERATION ENABLED','QUICK STOP ACTIVE')
            problems=[]
            if refused and start!=target:
                if not res.startswith("ValueError"): problems.append("not refused: "+res)
            else:
                if res!="ok": problems.append(res)
                elif d.state!=target: problems.append("ended in "+d.state)
                if 'OPERATION ENABLED' in d.trace[1:] and not oe_ok: problems.append("enabled operation")
            if problems: print("extra %04x delay %d %s -> %s:"%(extra,delay,start,target),problems,d.trace,[hex(c) for c in d.cws])
print("pairs done")
# decoder
n=BaseNode402(3,OD); bad=0
def ref(sw):
    for name,(m,v) in {'NOT READY TO SWITCH ON':(0x4F,0),'SWITCH ON DISABLED':(0x4F,0x40),'READY TO SWITCH ON':(0x6F,0x21),'SWITCHED ON':(0x6F,0x23),'OPERATION ENABLED':(0x6F,0x27),'QUICK STOP ACTIVE':(0x6F,0x07),'FAULT REACTION ACTIVE':(0x4F,0x0F),'FAULT':(0x4F,0x08)}.items():
        if sw&m==v: return name
    return 'UNKNOWN'
for sw in range(65536):
    n.tpdo_values[0x6041]=sw
    if n.state!=ref(sw): bad+=1
print("decoder mismatches",bad)
print("----")
res,d=run('FAULT REACTION ACTIVE','FAULT',3,0)
print(res,d.trace,d.reads)
print("---- per-read timing of automatic transitions (delay counted in individual statusword uploads)")
import collections
out = collections.Counter(); exs = {}
for start in ('QUICK STOP ACTIVE', 'NOT READY TO SWITCH ON', 'FAULT REACTION ACTIVE'):
    for target in ('SWITCH ON DISABLED', 'READY TO SWITCH ON', 'SWITCHED ON', 'OPERATION ENABLED'):
        for delay in range(0, 40):
            res, d = run(start, target, delay, 0, qs_auto=True)
            ok = res == "ok" and d.state == target
            k = (start, target, "ok" if ok else res[:45])
            out[k] += 1; exs.setdefault(k, (delay, d.trace))
for k, n in sorted(out.items()): print(n, k, exs[k])
