import canopen, struct, types, queue as rq
import canopen.lss as lss
class Clock:
    now=1000.0
    def time(s): return s.now
    def sleep(s,d): s.now+=d
CLK=Clock()
class VQ:
    def __init__(s): s.q=[]
    def put(s,x): s.q.append(x)
    def empty(s): return not s.q
    def get(s, block=True, timeout=None):
        if s.q: return s.q.pop(0)
        CLK.now+=(timeout or 0); raise rq.Empty
lss.queue=types.SimpleNamespace(Queue=VQ, Empty=rq.Empty); lss.time=CLK
class Slave:
    """CiA 305 slave, unconfigured (node id 0xFF), fastscan capable"""
    def __init__(s, ident, present=True, drop=None):
        s.id=list(ident); s.state='waiting'; s.pos=0; s.node_id=0xFF; s.present=present; s.sel=[None]*4; s.n=0; s.drop=drop; s.frames=[]
    def on(s,f):
        f=bytes(f); s.frames.append(f)
        assert len(f)==8, f.hex()
        if not s.present: return []
        cs=f[0]; out=[]
        if cs==0x51:
            idn,bit,sub,nxt=struct.unpack_from("<IBBB",f,1)
            if s.state!='waiting' or s.node_id!=0xFF: return []
            if bit==0x80:
                s.pos=0; out=[bytes([0x4F])+bytes(7)]
            elif s.pos==sub and bit<32 and sub<4 and nxt<4:
                mask=(0xFFFFFFFF<<bit)&0xFFFFFFFF
                if (s.id[sub]&mask)==(idn&mask):
                    s.pos=nxt
                    if bit==0 and nxt<sub: s.state='configuration'
                    out=[bytes([0x4F])+bytes(7)]
        elif cs==0x04:
            assert f[2:]==bytes(6); s.state='configuration' if f[1]==1 else 'waiting'
        elif 0x40<=cs<=0x43:
            assert f[5:]==bytes(3)
            s.sel[cs-0x40]=struct.unpack_from("<I",f,1)[0]
            if cs==0x43 and s.sel==s.id: s.state='configuration'; out=[bytes([0x44])+bytes(7)]
        elif cs==0x5E and s.state=='configuration':
            out=[bytes([0x5E,s.node_id])+bytes(6)]
        elif 0x5A<=cs<=0x5D and s.state=='configuration':
            out=[bytes([cs])+struct.pack("<I",s.id[cs-0x5A])+bytes(3)]
        elif cs==0x11 and s.state=='configuration':
            ok = 1<=f[1]<=127 or f[1]==255
            if ok: s.node_id=f[1]
            out=[bytes([0x11, 0 if ok else 1])+bytes(6)]
        elif cs==0x13 and s.state=='configuration':
            ok = f[1]==0 and f[2]<=8 and f[2]!=5
            out=[bytes([0x13, 0 if ok else 1])+bytes(6)]
        elif cs==0x17 and s.state=='configuration':
            out=[bytes([0x17,0])+bytes(6)]
        s.n+=len(out)
        if s.drop is not None and out and s.n==s.drop: return []
        return out
def run(ident,present=True,drop=None):
    net=canopen.Network(); sl=Slave(ident,present,drop)
    def send(can_id,d,remote=False):
        assert can_id==0x7E5
        for r in sl.on(d): net.notify(0x7E4, bytearray(r), 0.0)
    net.send_message=send
    return net,sl
bad=0;cnt=0
vals=[0,0xFFFFFFFF,0xA5A5A5A5]+[1<<k for k in range(32)]+[0xFFFFFFFF^(1<<k) for k in range(32)]
for part in range(4):
    for v in vals:
        for bg in (0,0xFFFFFFFF,0x12345678):
            ident=[bg]*4; ident[part]=v
            net,sl=run(ident); cnt+=1
            r=net.lss.fast_scan()
            if r!=(True,ident) or sl.state!='configuration':
                bad+=1
                if bad<10: print("ident",[hex(x) for x in ident],"->",r,sl.state,len(sl.frames))
print("fastscan cases",cnt,"bad",bad,"frames per scan",len(sl.frames))
net,sl=run([1,2,3,4],present=False); print("no slave:",net.lss.fast_scan())
# dropped replies
res={}
for d in range(1,134):
    net,sl=run([0x1234,0xFFFF0000,7,0x80000001],drop=d)
    r=net.lss.fast_scan(); k="ok" if r==(True,sl.id) else ("fail" if r==(False,None) else "WRONG %r"%(r,))
    res[k]=res.get(k,0)+1
print("drop replies:",res)
net,sl=run([0x22,0x12345678,0x555,0xabcdef])
print("selective:",net.lss.send_switch_state_selective(0x22,0x12345678,0x555,0xabcdef), sl.state)
print("inq node id", net.lss.inquire_node_id(), "inq vendor", hex(net.lss.inquire_lss_address(0x5A)))
for nid in (0,1,127,128,255):
    try: net.lss.configure_node_id(nid); print(nid,"ok")
    except Exception as e: print(nid,type(e).__name__,e)
for b in (0,5,8,9):
    try: net.lss.configure_bit_timing(b); print("bt",b,"ok")
    except Exception as e: print("bt",b,type(e).__name__,e)
net.lss.store_configuration(); net.lss.activate_bit_timing(0x1234); net.lss.send_switch_state_global(0)
print([f.hex() for f in sl.frames[-3:]], sl.state)
