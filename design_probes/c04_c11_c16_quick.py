"""DESIGN PROBE (throw-away): C04 codec classification, C11 NMT sequences vs reference, C16 EMCY histories."""
import sys, struct, itertools, collections, logging, math
sys.path.insert(0, "/repo")
import canopen
from canopen.objectdictionary import ODVariable, ObjectDictionary, datatypes as dt
from canopen import nmt as nmtmod, emcy as emcymod
logging.disable(logging.CRITICAL)
out = collections.Counter(); ex = {}
def note(k, d): out[k] += 1; ex.setdefault(k, d)
# ---------------- C04
for name in "INTEGER8 INTEGER16 INTEGER24 INTEGER32 INTEGER40 INTEGER48 INTEGER56 INTEGER64 UNSIGNED8 UNSIGNED16 UNSIGNED24 UNSIGNED32 UNSIGNED40 UNSIGNED48 UNSIGNED56 UNSIGNED64".split():
    w = int(name.lstrip("INTEGRUSD")); signed = name.startswith("INT")
    lo, hi = (-(1 << (w - 1)), (1 << (w - 1)) - 1) if signed else (0, (1 << w) - 1)
    v = ODVariable("x", 1); v.data_type = getattr(dt, name)
    if len(v) != w: note(("C04 len", name), len(v))
    cand = set()
    if w <= 16: cand = set(range(lo - 3, hi + 4))
    for k in range(0, 66):
        for d in range(-2, 3):
            for s in (1, -1): cand.add(s * (1 << k) + d)
    cand |= {lo - 1, lo - 2, hi + 1, hi + 2, lo, hi}
    for x in cand:
        try:
            b = v.encode_raw(x); err = None
        except Exception as e:
            b = None; err = type(e).__name__
        if lo <= x <= hi:
            want = (x % (1 << w)).to_bytes(w // 8, "little")
            if b != want: note(("C04 encode in-range", name, err or "wrong bytes"), (x, b))
            else:
                try:
                    if v.decode_raw(b) != x: note(("C04 decode", name), x)
                except Exception as e: note(("C04 decode raises", name, type(e).__name__), x)
        elif b is not None:
            note(("C04 out-of-range accepted", name, "above" if x > hi else "below"), (x, b.hex()))
        else:
            out[("C04 out-of-range rejected", err)] += 1
    for L in range(0, 10):
        for pat in itertools.product((0x00, 0x01, 0x7F, 0x80, 0xFF), repeat=min(L, 3)):
            data = (bytes(pat) + bytes([0xFF, 0x80, 0x00, 0x7F, 0x01, 0xFE]))[:L] if L > 3 else bytes(pat)
            try:
                r = v.decode_raw(data); err = None
            except Exception as e:
                r = None; err = type(e).__name__
            if L == w // 8:
                want = int.from_bytes(data, "little", signed=signed)
                if r != want: note(("C04 decode pattern", name, err), (data.hex(), r, want))
                elif v.encode_raw(r) != data: note(("C04 re-encode", name), data.hex())
            elif err is None: note(("C04 wrong-length decoded", name, L), (data.hex(), r))
            else: out[("C04 wrong-length rejected", err)] += 1
for name, fmt, big in (("REAL32", "<f", 1e39), ("REAL64", "<d", None)):
    v = ODVariable("x", 1); v.data_type = getattr(dt, name)
    for x in (0.0, -0.0, 1.0, -1.5, math.inf, -math.inf, 1e-45, 5e-324, 3.4028234663852886e38, 1.7976931348623157e308):
        try:
            b = v.encode_raw(x)
            if b != struct.pack(fmt, x): note(("C04 real bytes", name), x)
        except Exception as e:
            try: struct.pack(fmt, x); note(("C04 real raises", name, type(e).__name__), x)
            except Exception: out[("C04 real out-of-range rejected", type(e).__name__)] += 1
    if big:
        try: v.encode_raw(big); note(("C04 real overflow accepted", name), big)
        except Exception as e: out[("C04 real out-of-range rejected", type(e).__name__)] += 1
print("==== C04")
for k, n in sorted(out.items(), key=str): print(n, k, ex.get(k, ""))
# ---------------- C11
out.clear(); ex.clear()
REF_TABLE = {1: 5, 2: 4, 80: 80, 96: 96, 128: 127, 129: 0, 130: 0}
NAMES = {0: 'INITIALISING', 4: 'STOPPED', 5: 'OPERATIONAL', 80: 'SLEEP', 96: 'STANDBY', 127: 'PRE-OPERATIONAL'}
CMDNAMES = {'OPERATIONAL': 1, 'STOPPED': 2, 'SLEEP': 80, 'STANDBY': 96, 'PRE-OPERATIONAL': 128, 'INITIALISING': 129, 'RESET': 129, 'RESET COMMUNICATION': 130}
def mkod():
    od = ObjectDictionary(); v = ODVariable("hb", 0x1017); v.data_type = dt.UNSIGNED16; v.default = 0; od.add_object(v); return od
OD = mkod()
class World:
    def __init__(s):
        s.frames = []; s.m = canopen.Network(); s.s = canopen.Network()
        class B:
            channel_info = "x"
            def send_periodic(b, msg, period):
                class T:
                    def stop(t): pass
                    def modify_data(t, m): pass
                return T()
        s.m.bus = s.s.bus = B()
        def msend(cid, data, remote=False): s.frames.append((cid, bytes(data))); s.s.notify(cid, bytearray(data), 0.0)
        def ssend(cid, data, remote=False): s.frames.append((cid, bytes(data))); s.m.notify(cid, bytearray(data), 0.0)
        s.m.send_message = msend; s.s.send_message = ssend
        s.r5 = s.m.add_node(5, OD); s.r6 = s.m.add_node(6, OD); s.l5 = s.s.create_node(5, OD); s.l6 = s.s.create_node(6, OD)
        s.ref = {"m5": 0, "m6": 0, "mb": 0, "s5": 0, "s6": 0}
    def views(s): return {"m5": s.r5.nmt._state, "m6": s.r6.nmt._state, "mb": s.m.nmt._state, "s5": s.l5.nmt._state, "s6": s.l6.nmt._state}
EVENTS = [("cmd", who, cs) for who in ("m5", "m6", "mb") for cs in (1, 2, 80, 96, 128, 129, 130, 0, 3, 255)] + \
         [("name", who, n) for who in ("m5", "mb") for n in list(CMDNAMES) + ["operational", "", "INVALID"]] + \
         [("hb", nid, b) for nid in (5, 6) for b in (0, 4, 5, 127, 0x85, 0xFF, 75)] + [("raw", 7, 1), ("slave_name", 5, "PRE-OPERATIONAL"), ("slave_name", 5, "OPERATIONAL"), ("slave_name", 5, "RESET")]
def apply(w, ev):
    w.frames.clear()
    kind = ev[0]; ref = w.ref
    if kind == "cmd":
        _, who, cs = ev
        obj = {"m5": w.r5.nmt, "m6": w.r6.nmt, "mb": w.m.nmt}[who]; nid = {"m5": 5, "m6": 6, "mb": 0}[who]
        try: obj.send_command(cs)
        except Exception as e: note(("C11 send_command raises " + type(e).__name__, obj._state), ev)
        if w.frames != [(0, bytes([cs, nid]))]: note(("C11 frame", ev[0], obj._state if obj._state not in NAMES else 'known'), list(w.frames))
        if cs in REF_TABLE:
            ref[who] = REF_TABLE[cs]
            for sl, sid in (("s5", 5), ("s6", 6)):
                if nid in (0, sid): ref[sl] = REF_TABLE[cs]
    elif kind == "name":
        _, who, n = ev
        obj = {"m5": w.r5.nmt, "mb": w.m.nmt}[who]; nid = {"m5": 5, "mb": 0}[who]
        try:
            obj.state = n; raised = False
        except ValueError: raised = True
        except Exception as e: note(("C11 state= raises " + type(e).__name__, obj._state), ev); raised = False
        if n in CMDNAMES:
            cs = CMDNAMES[n]
            if raised or w.frames != [(0, bytes([cs, nid]))]: note(("C11 name frame", ev), (raised, list(w.frames)))
            ref[who] = REF_TABLE[cs]
            for sl, sid in (("s5", 5), ("s6", 6)):
                if nid in (0, sid): ref[sl] = REF_TABLE[cs]
        elif not raised or w.frames: note(("C11 invalid name not rejected silently", ev), (raised, list(w.frames)))
    elif kind == "hb":
        _, nid, b = ev
        w.m.notify(0x700 + nid, bytearray([b]), 1.0)
        st = b & 0x7F
        ref["m%d" % nid] = 127 if st == 0 else st
    elif kind == "raw":
        try:
            w.s.notify(0, bytearray([ev[2], ev[1]]), 0.0); w.m.notify(0, bytearray([ev[2], ev[1]]), 0.0)
        except Exception as e: note(("C11 notify raises " + type(e).__name__,), ev)
    elif kind == "slave_name":
        _, nid, n = ev
        w.l5.nmt.state = n; ref["s5"] = REF_TABLE[CMDNAMES[n]]
        if ref["s5"] == 0:
            # boot-up message goes out; master hears it as heartbeat 0 -> PRE-OPERATIONAL
            ref["m5"] = 127
    got = w.views()
    cmp_keys = [k for k in got if not (k in ("m5", "m6") and ev[0] in ("cmd", "name") and ev[1] == "mb")]   # broadcast: per-node master views not compared
    for k in cmp_keys:
        if k in ("m5", "m6") and w.__dict__.get("stale_" + k): continue
        if got[k] != ref[k]: note(("C11 state", k, ev[0]), (ev, got, dict(ref)))
    # after a broadcast the per-node master view is unspecified until the next heartbeat / addressed command
    if ev[0] in ("cmd", "name") and ev[1] == "mb":
        for k in ("m5", "m6"): ref[k] = got[k]
seen = set(); frontier = collections.deque([()]); trans = 0
while frontier:
    h = frontier.popleft()
    if len(h) >= 3: continue
    for ev in EVENTS:
        w = World()
        for e in h: apply(w, e)
        n0 = sum(out.values()); apply(w, ev); trans += 1
        key = tuple(sorted(w.views().items()))
        if key not in seen: seen.add(key); frontier.append(h + (ev,))
print("==== C11 states", len(seen), "transitions", trans)
for k, n in sorted(out.items(), key=str)[:12]: print(n, k, ex.get(k, ""))
# ---------------- C16
out.clear(); ex.clear()
CODES = (0x0000, 0x00FF, 0x0100, 0x1000, 0x2000, 0x8130, 0xFF00)
def fr(code, reg, data): return struct.pack("<HB5s", code, reg, data)
EV = [("f", c, r) for c in CODES for r in (0, 0x81)] + [("reset",)]
def run(h):
    c = emcymod.EmcyConsumer(); cb = []; c.add_callback(lambda e: cb.append(e))
    ref_log = []; ref_act = []
    for i, ev in enumerate(h):
        if ev[0] == "f":
            c.on_emcy(0x85, fr(ev[1], ev[2], b"ab"), float(i)); rec = (ev[1], ev[2], b"ab\0\0\0", float(i))
            ref_log.append(rec)
            if ev[1] & 0xFF00 == 0: ref_act = []
            else: ref_act.append(rec)
        else:
            c.reset(); ref_log = []; ref_act = []
    f = lambda lst: [(e.code, e.register, e.data, e.timestamp) for e in lst]
    return f(c.log) == ref_log and f(c.active) == ref_act and len(cb) == sum(1 for e in h if e[0] == "f")
cnt = 0
for L in range(1, 5):
    for h in itertools.product(EV, repeat=L):
        cnt += 1
        if not run(h): note(("C16 history",), h)
ref_desc = lambda code: next((d for lo, mask, d in ((0x0000, 0xFF00, "Error Reset / No Error"), (0x1000, 0xFF00, "Generic Error"), (0x2000, 0xF000, "Current"), (0x3000, 0xF000, "Voltage"), (0x4000, 0xF000, "Temperature"), (0x5000, 0xFF00, "Device Hardware"), (0x6000, 0xF000, "Device Software"), (0x7000, 0xFF00, "Additional Modules"), (0x8000, 0xF000, "Monitoring"), (0x9000, 0xFF00, "External Error"), (0xF000, 0xFF00, "Additional Functions"), (0xFF00, 0xFF00, "Device Specific")) if code & mask == lo), "")
bad = sum(1 for code in range(65536) if emcymod.EmcyError(code, 0, b"", 0).get_desc() != ref_desc(code))
print("==== C16 histories", cnt, "desc mismatches", bad)
for k, n in sorted(out.items(), key=str): print(n, k, ex.get(k, ""))
