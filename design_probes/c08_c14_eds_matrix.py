"""DESIGN PROBE (throw-away): small product sweep over EDS import (C08) and export/import (C14)."""
import sys, io, itertools, collections, logging, contextlib
sys.path.insert(0, "/repo")
import canopen
from canopen.objectdictionary import ODVariable, ODRecord, ODArray, ObjectDictionary, datatypes as dt
logging.disable(logging.CRITICAL)
TYPES = {n: getattr(dt, n) for n in ("BOOLEAN INTEGER8 INTEGER16 INTEGER24 INTEGER32 INTEGER40 INTEGER48 INTEGER56 INTEGER64 "
         "UNSIGNED8 UNSIGNED16 UNSIGNED24 UNSIGNED32 UNSIGNED40 UNSIGNED48 UNSIGNED56 UNSIGNED64 REAL32 REAL64 "
         "VISIBLE_STRING OCTET_STRING UNICODE_STRING DOMAIN TIME_OF_DAY TIME_DIFFERENCE").split()}
def width(t):
    for n, c in TYPES.items():
        if c == t and ("INTEGER" in n or "UNSIGNED" in n): return int(n.lstrip("INTEGRUSD"))
    return None
def rng(t):
    w = width(t)
    if w is None: return None
    return (-(1 << (w - 1)), (1 << (w - 1)) - 1) if t in dt.SIGNED_TYPES else (0, (1 << w) - 1)
def spell(v, how, t):
    if how == "dec": return str(v)
    if v < 0:
        v += 1 << width(t)          # two's complement hex
    return ("0x%X" % v) if how == "hex" else ("0x%x" % v)
problems = collections.Counter(); ex = {}
def note(k, d):
    problems[k] += 1; ex.setdefault(k, d)
# ---------- C08: single VAR, types x default x limits x spelling
NODE = 0x10
for tname, t in TYPES.items():
    r = rng(t)
    defaults = [None]
    if r: defaults += [("abs", r[0]), ("abs", r[1]), ("abs", 0), ("rel", 0x20)]
    elif t in dt.FLOAT_TYPES: defaults += [("abs", 1.5), ("abs", -2.25e10)]
    elif t in (dt.VISIBLE_STRING, dt.UNICODE_STRING): defaults += [("abs", "hello world"), ("abs", "a=b%c")]
    elif t in (dt.OCTET_STRING, dt.DOMAIN): defaults += [("abs", b"\x01\xff")]
    for d in defaults:
        for lim in ((None, None), ("lo", None), (None, "hi"), ("lo", "hi")) if r else ((None, None),):
            for how in ("dec", "hex", "hexl") if r else ("dec",):
                for access in ("rw", "RO", "const", "wo", "rww"):
                    lines = ["[DeviceComissioning]", "NodeID=%d" % NODE, "Baudrate=500", "[2000]", "ParameterName=obj x", "ObjectType=0x7",
                             "DataType=0x%04X" % t, "AccessType=%s" % access, "PDOMapping=1"]
                    exp_def = None
                    if d:
                        kind, v = d
                        if kind == "rel":
                            lines.append("DefaultValue=$NODEID+%s" % spell(v, how, t)); exp_def = v + NODE
                        elif isinstance(v, bytes): lines.append("DefaultValue=" + v.hex()); exp_def = v
                        elif isinstance(v, (str, float)): lines.append("DefaultValue=%s" % v); exp_def = v
                        else:
                            # defaults: negative spelled decimal only (statement: two's complement only for limits)
                            lines.append("DefaultValue=" + (spell(v, how, t) if v >= 0 else str(v))); exp_def = v
                    exp_min = exp_max = None
                    if lim[0]: lines.append("LowLimit=" + spell(r[0], how, t)); exp_min = r[0]
                    if lim[1]: lines.append("HighLimit=" + spell(r[1], how, t)); exp_max = r[1]
                    f = io.StringIO("\n".join(lines) + "\n"); f.name = "x.dcf"
                    try:
                        od = canopen.import_od(f)
                        v = od[0x2000]
                    except Exception as e:
                        note("C08 import raises %s" % type(e).__name__, (tname, d, lim, how, str(e)[:60])); continue
                    if v.data_type != t: note("C08 data_type", (tname, v.data_type))
                    if v.access_type != access.lower(): note("C08 access", (access, v.access_type))
                    if v.default != exp_def: note("C08 default %s %s" % (tname if r is None else ("signed" if t in dt.SIGNED_TYPES else "unsigned"), "rel" if d and d[0] == "rel" else "abs"), (tname, d, how, v.default, exp_def))
                    if v.min != exp_min: note("C08 min lost w=%s %s" % (width(t), "signed" if t in dt.SIGNED_TYPES else "unsigned"), (tname, how, v.min, exp_min))
                    if v.max != exp_max: note("C08 max w=%s %s %s" % (width(t), "signed" if t in dt.SIGNED_TYPES else "unsigned", how), (tname, how, v.max, exp_max))
                    if od["obj x"] is not v: note("C08 name lookup", tname)
                    if not v.pdo_mappable: note("C08 pdo_mappable", tname)
                    if od.node_id != NODE or od.bitrate != 500000: note("C08 node/bitrate", (od.node_id, od.bitrate))
print("---- C08")
for k, n in sorted(problems.items()): print(n, k, ex[k])
# ---------- C14: programmatic variables
problems.clear(); ex.clear()
ATTRS = ("name", "index", "subindex", "data_type", "access_type", "pdo_mappable", "default", "min", "max", "storage_location", "factor", "unit", "description", "value")
def cmp_var(a, b, tag):
    for at in ATTRS:
        va, vb = getattr(a, at), getattr(b, at)
        if at == "value" and tag[1] == "eds": continue
        if va != vb and not (va in (None, "") and vb in (None, "")):
            note("C14 %s %s differs" % (tag[1], at), (tag, at, va, vb))
for tname, t in TYPES.items():
    r = rng(t)
    if r: defaults = [None, r[0], r[1], 0, -1 if r[0] < 0 else 1]
    elif t == dt.BOOLEAN: defaults = [None, True, False]
    elif t in dt.FLOAT_TYPES: defaults = [None, 1.5, -0.0, 1e-30]
    elif t in (dt.VISIBLE_STRING, dt.UNICODE_STRING): defaults = [None, "two words", "p%c=q", ""]
    elif t in (dt.OCTET_STRING, dt.DOMAIN): defaults = [None, b"\x00\x01\xff", b""]
    else: defaults = [None]
    for d in defaults:
        for lim in ((None, None),) + (((r[0], r[1]), (r[0], None), (None, r[1])) if r else ()):
            for doc in ("eds", "dcf"):
                for idx in (0x1000, 0x2000, 0x6000):
                    od = ObjectDictionary(); v = ODVariable("my var", idx); v.data_type = t; v.default = d; v.min, v.max = lim
                    v.value = d if doc == "dcf" else None
                    v.factor = 0.5; v.unit = "mm"; v.description = "some text"; v.storage_location = "RAM"; v.pdo_mappable = True; v.access_type = "ro"
                    od.add_object(v); od.node_id = 7; od.bitrate = 250000; od.comments = "line one\nline two"
                    od.device_information.vendor_name = "ACME"; od.device_information.vendor_number = 0x1234; od.device_information.granularity = 8
                    od.device_information.allowed_baudrates = {250000, 1000000}; od.device_information.LSS_supported = True; od.device_information.nr_of_RXPDO = 3
                    s = io.StringIO()
                    try:
                        canopen.export_od(od, s, doc)
                        s.seek(0); s.name = "y." + doc
                        od2 = canopen.import_od(s)
                        v2 = od2[idx]
                    except Exception as e:
                        note("C14 raises %s" % type(e).__name__, (tname, d, lim, doc, hex(idx), str(e)[:70])); continue
                    cmp_var(v, v2, (tname, doc, d, lim))
                    if od2.comments != od.comments: note("C14 comments", od2.comments)
                    di, di2 = od.device_information, od2.device_information
                    for at in ("vendor_name", "vendor_number", "granularity", "allowed_baudrates", "LSS_supported", "nr_of_RXPDO"):
                        if getattr(di, at) != getattr(di2, at): note("C14 devinfo " + at, (getattr(di, at), getattr(di2, at)))
                    if doc == "dcf" and (od2.node_id, od2.bitrate) != (7, 250000): note("C14 node/bitrate", (od2.node_id, od2.bitrate))
print("---- C14")
for k, n in sorted(problems.items()): print(n, k, ex[k])
