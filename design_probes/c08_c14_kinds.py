"""DESIGN PROBE (throw-away): EDS object kinds (record/array/compact/name list), lookups, destinations, export history."""
import sys, io, os, tempfile, contextlib, collections, logging, re
sys.path.insert(0, "/repo")
import canopen
from canopen.objectdictionary import ODVariable, ODRecord, ODArray, ObjectDictionary, datatypes as dt
logging.disable(logging.CRITICAL)
out = collections.Counter(); ex = {}
def note(k, d): out[k] += 1; ex.setdefault(k, d)
def imp(text, name="x.eds", node_id=None):
    f = io.StringIO(text); f.name = name; return canopen.import_od(f, node_id)
HEAD = "[DeviceInfo]\nVendorName=V\nProductName=P\nVendorNumber=0x1\nProductNumber=2\nRevisionNumber=3\nOrderCode=oc\nBaudRate_125=1\nBaudRate_1000=1\nSimpleBootUpMaster=0\nSimpleBootUpSlave=1\nGranularity=1\nDynamicChannelsSupported=0\nGroupMessaging=0\nNrOfRXPDO=1\nNrOfTXPDO=2\nLSS_Supported=1\n"
for sub in ("sub", "Sub"):
    for hexcase in ("A", "a"):
        t = HEAD + f"""[3000]
ParameterName=My Record
ObjectType=0x9
SubNumber=3
[3000{sub}0]
ParameterName=Highest sub-index
DataType=0x0005
AccessType=ro
DefaultValue=10
[3000{sub}1]
ParameterName=First
DataType=0x0003
AccessType=rw
DefaultValue=-3
LowLimit=0xFFF0
HighLimit=0x10
PDOMapping=1
[3000{sub}{hexcase}]
ParameterName=Tenth
DataType=0x0007
AccessType=wo
[3001]
ParameterName=My Array
ObjectType=8
SubNumber=3
[3001{sub}0]
ParameterName=n
DataType=5
AccessType=const
DefaultValue=2
[3001{sub}1]
ParameterName=e1
DataType=4
AccessType=rw
DefaultValue=0x7FFFFFFF
[3001{sub}2]
ParameterName=e2
DataType=4
AccessType=rw
[3002]
ParameterName=Compact
ObjectType=8
DataType=0x0006
AccessType=rw
DefaultValue=0x1234
CompactSubObj=4
PDOMapping=0
[3003]
ParameterName=Named
ObjectType=8
DataType=0x0005
AccessType=ro
DefaultValue=1
CompactSubObj=3
[3003Name]
NrOfEntries=3
1=alpha
2=beta
3=gamma
[3004]
ParameterName=NoObjectType
DataType=0x0008
AccessType=rw
DefaultValue=1.5
[3005]
ParameterName=Domain obj
ObjectType=2
DataType=0x000F
AccessType=rw
"""
        try: od = imp(t)
        except Exception as e: note(("import raises", sub, hexcase, type(e).__name__), str(e)[:80]); continue
        r = od[0x3000]
        if not isinstance(r, ODRecord) or sorted(r.subindices) != [0, 1, 10]: note(("record subs", sub, hexcase), sorted(r.subindices))
        else:
            f = r[1]
            if (f.name, f.data_type, f.access_type, f.default, f.min, f.max, f.pdo_mappable) != ("First", 3, "rw", -3, -16, 16, True): note(("record member attrs",), (f.name, f.data_type, f.access_type, f.default, f.min, f.max, f.pdo_mappable))
            if od["My Record.Tenth"] is not r[10] or od["My Record"]["First"] is not f or od[0x3000]["Tenth"].subindex != 10: note(("lookups",), None)
        a = od[0x3001]
        if not isinstance(a, ODArray) or sorted(a.subindices) != [0, 1, 2] or a[1].default != 0x7FFFFFFF or a[2].data_type != 4: note(("array",), None)
        c = od[0x3002]
        try:
            got = [(c[k].data_type, c[k].access_type, c[k].default, c[k].subindex) for k in range(1, 5)]
            if got != [(6, "rw", 0x1234, k) for k in range(1, 5)]: note(("compact expansion",), got)
            if (c[0].data_type, c[0].name) != (5, "Number of entries"): note(("compact sub0",), (c[0].data_type, c[0].name))
        except Exception as e: note(("compact raises", type(e).__name__), str(e)[:60])
        n = od[0x3003]
        try:
            got = [(n[k].name, n[k].data_type, n[k].default, n[k].subindex, n[k].access_type) for k in range(1, 4)]
            if got != [(nm, 5, 1, k, "ro") for k, nm in ((1, "alpha"), (2, "beta"), (3, "gamma"))]: note(("named compact",), got)
            if od["Named.beta"].subindex != 2: note(("named lookup",), None)
        except Exception as e: note(("named raises", type(e).__name__), str(e)[:60])
        if not isinstance(od[0x3004], ODVariable) or od[0x3004].default != 1.5: note(("no ObjectType",), None)
        if not isinstance(od[0x3005], ODVariable) or od[0x3005].data_type != 0xF: note(("domain objtype",), None)
        di = od.device_information
        got = (di.vendor_name, di.product_name, di.vendor_number, di.product_number, di.revision_number, di.order_code, di.allowed_baudrates, di.simple_boot_up_master, di.simple_boot_up_slave, di.granularity, di.dynamic_channels_supported, di.group_messaging, di.nr_of_RXPDO, di.nr_of_TXPDO, di.LSS_supported)
        if got != ("V", "P", 1, 2, 3, "oc", {125000, 1000000}, False, True, 1, False, False, 1, 2, True): note(("devinfo",), got)
# node id sources
t = HEAD + "[DeviceComissioning]\nNodeID=12\nBaudrate=125\n[2000]\nParameterName=cob\nDataType=7\nAccessType=rw\nDefaultValue=$NODEID+0x180\nParameterValue=0x200 + $NODEID\n"
for arg, exp in ((None, 12), (3, 3)):
    od = imp(t, "x.dcf", arg)
    if (od.node_id, od[0x2000].default, od[0x2000].value, od.bitrate) != (exp, 0x180 + exp, 0x200 + exp, 125000): note(("nodeid", arg), (od.node_id, od[0x2000].default, od[0x2000].value, od.bitrate))
od = imp(HEAD + "[2000]\nParameterName=cob\nDataType=7\nAccessType=rw\nDefaultValue=$NODEID+0x180\n", "x.eds", 9)
if od[0x2000].default != 0x189: note(("nodeid arg without DeviceComissioning",), od[0x2000].default)
# file path import + suffix dispatch
with tempfile.TemporaryDirectory(dir="/var/tmp") as d:
    for suf in (".eds", ".EDS", ".dcf", ".txt"):
        pth = os.path.join(d, "f" + suf); open(pth, "w").write(t)
        try:
            od = canopen.import_od(pth); ok = od[0x2000].default == 0x18C
            if not ok: note(("file import", suf), None)
        except ValueError as e:
            if suf != ".txt": note(("file import raises", suf), str(e)[:50])
    # ---- C14: kinds + three destinations + history
    def build(tag):
        od = ObjectDictionary()
        rec = ODRecord("Rec " + tag, 0x2000)
        for s, (nm, ty, de) in enumerate([("n", dt.UNSIGNED8, 2), ("a b", dt.INTEGER16, -5 if tag == "neg" else 5), ("c%d=e", dt.VISIBLE_STRING, "x y")]):
            v = ODVariable(nm, 0x2000, s); v.data_type = ty; v.default = de; v.access_type = "rw"; rec.add_member(v)
        rec.storage_location = "ROM"; od.add_object(rec)
        arr = ODArray("Arr", 0x6000)
        for s in range(0, 21):
            v = ODVariable("e%d" % s, 0x6000, s); v.data_type = dt.UNSIGNED8 if s == 0 else dt.UNSIGNED32; v.default = s; arr.add_member(v)
        od.add_object(arr)
        v = ODVariable("Device type", 0x1000); v.data_type = dt.UNSIGNED32; v.default = 0x191; v.access_type = "ro"; od.add_object(v)
        od.comments = "c1\n\nc3"; od.device_information.vendor_name = "ACME " + tag; od.node_id = 4; od.bitrate = 500000
        return od
    def same(a, b, doc):
        diffs = []
        if sorted(a.indices) != sorted(b.indices): diffs.append(("indices", sorted(a.indices), sorted(b.indices)))
        for i in a.indices:
            if i not in b.indices: continue
            x, y = a[i], b[i]
            if type(x) is not type(y) or x.name != y.name: diffs.append(("kind/name", hex(i), type(y).__name__, y.name)); continue
            if not isinstance(x, ODVariable):
                if getattr(x, "storage_location", None) != getattr(y, "storage_location", None): diffs.append(("storage_location", hex(i)))
                if sorted(x.subindices) != sorted(y.subindices): diffs.append(("subs", hex(i), sorted(y.subindices))); continue
                pairs = [(x[s], y[s]) for s in x.subindices]
            else: pairs = [(x, y)]
            for p, q in pairs:
                for at in ("name", "data_type", "access_type", "default", "min", "max", "pdo_mappable"):
                    if getattr(p, at) != getattr(q, at): diffs.append((at, hex(i), p.subindex, getattr(p, at), getattr(q, at)))
        if a.comments != b.comments: diffs.append(("comments", a.comments, b.comments))
        if a.device_information.vendor_name != b.device_information.vendor_name: diffs.append(("vendor_name",))
        if doc == "dcf" and (a.node_id, a.bitrate) != (b.node_id, b.bitrate): diffs.append(("node/bitrate", b.node_id, b.bitrate))
        return diffs
    mask = lambda s: re.sub(r"(ModificationDate|ModificationTime|CreationDate|CreationTime)=.*", r"\1=", s)
    for doc in ("eds", "dcf"):
        texts = {}
        for tag in ("pos", "neg"):
            od = build(tag)
            s = io.StringIO(); canopen.export_od(od, s, doc); texts[(tag, "stream")] = s.getvalue()
            pth = os.path.join(d, "out_%s.%s" % (tag, doc)); canopen.export_od(od, pth); texts[(tag, "file")] = open(pth).read()
            buf = io.StringIO()
            with contextlib.redirect_stdout(buf): canopen.export_od(od, None, doc)
            texts[(tag, "stdout")] = buf.getvalue()
            if len({mask(texts[(tag, k)]) for k in ("stream", "file", "stdout")}) != 1: note(("C14 destinations differ", doc, tag), None)
            od2 = imp(texts[(tag, "stream")], "y." + doc)
            for dd in same(od, od2, doc): note(("C14 " + doc, tag) + dd[:1], dd)
        fi = lambda tx: re.search(r"\[FileInfo\](.*?)\n\[", tx, re.S).group(1)
print("==== kinds/destinations")
for k, n in sorted(out.items(), key=str): print(n, k, ex[k])
