"""DESIGN PROBE (throw-away, not part of the machinery).

Feasibility prototype for explorer C of DESIGN.md: real OS threads run one at a
time under a baton; virtual Lock/Condition; attribute interposers on the shared
library objects as extra scheduling points; DFS over scheduling choices with a
preemption bound.  Three tiny harnesses:

  pdo    PdoMap.wait_for_reception  x  PdoMap.on_message
  emcy   EmcyConsumer.wait          x  two on_emcy deliveries (burst)
  nmt    NmtMaster.wait_for_heartbeat x on_heartbeat

Run:  /venv/bin/python design_probes/sched_prototype.py
"""
import sys
import threading
import time as realtime
import types

sys.path.insert(0, "/repo")
import canopen  # noqa: E402
import canopen.emcy as emcy_mod  # noqa: E402
import canopen.nmt as nmt_mod  # noqa: E402
import canopen.pdo.base as pb  # noqa: E402
from canopen.objectdictionary import (ODArray, ODRecord, ODVariable,  # noqa: E402
                                      ObjectDictionary, datatypes as dt)

S = None  # current scheduler


class Sched:
    def __init__(self, choices):
        self.choices = list(choices)
        self.ci = 0
        self.threads = []
        self.cur = None
        self.trace = []      # (n_enabled, chosen)
        self.now = 1000.0
        self.pre = 0
        self.events = []     # harness-level event log (order of critical sections)

    def spawn(self, fn, name):
        t = types.SimpleNamespace(name=name, sem=threading.Semaphore(0), done=False,
                                  blocked=None, deadline=None, res=None, timedout=False)

        def body():
            t.sem.acquire()
            try:
                t.res = fn()
            except BaseException as e:  # noqa: BLE001
                t.res = e
            t.done = True
            self.main.release()
        t.th = threading.Thread(target=body)
        self.threads.append(t)
        t.th.start()
        return t

    def enabled(self):
        return [t for t in self.threads if not t.done and t.blocked is None]

    def run(self):
        self.main = threading.Semaphore(0)
        while True:
            en = self.enabled()
            if not en:
                timed = [t for t in self.threads if not t.done and t.deadline is not None]
                if not timed:
                    if all(t.done for t in self.threads):
                        break
                    raise RuntimeError("deadlock")
                t = min(timed, key=lambda t: t.deadline)   # timeouts fire only at quiescence
                self.now = t.deadline
                t.blocked = None
                t.deadline = None
                t.timedout = True
                en = [t]
            if self.cur in en:                              # canonical order: running thread first
                en.remove(self.cur)
                en.insert(0, self.cur)
            k = self.choices[self.ci] if self.ci < len(self.choices) else 0
            self.ci += 1
            self.trace.append((len(en), k))
            if k >= len(en):
                raise RuntimeError("replay divergence")
            if k > 0 and self.cur is not None and not self.cur.done and self.cur.blocked is None:
                self.pre += 1
            self.cur = en[k]
            self.cur.sem.release()
            self.main.acquire()
        for t in self.threads:
            t.th.join()

    # -- called from controlled threads -------------------------------------
    def point(self):
        me = self.cur
        self.main.release()
        me.sem.acquire()

    def block(self, on, timeout=None):
        me = self.cur
        me.blocked = on
        me.deadline = (self.now + timeout) if timeout is not None else None
        me.timedout = False
        self.main.release()
        me.sem.acquire()
        return not me.timedout


def controlled():
    return S is not None and S.cur is not None and threading.current_thread() is S.cur.th


class VLock:
    def __init__(self):
        self.owner = None
        self.count = 0

    def acquire(self, blocking=True, timeout=-1):
        S.point()
        while self.owner is not None and self.owner is not S.cur:
            S.block(self)
        self.owner = S.cur
        self.count += 1
        return True

    def release(self):
        self.count -= 1
        if self.count == 0:
            self.owner = None
            for t in S.threads:
                if t.blocked is self:
                    t.blocked = None
        S.point()

    __enter__ = acquire

    def __exit__(self, *a):
        self.release()


class VCond:
    def __init__(self, lock=None):
        self.lock = lock or VLock()
        self.waiters = []

    def __enter__(self):
        return self.lock.acquire()

    def __exit__(self, *a):
        self.lock.release()

    def wait(self, timeout=None):
        me = S.cur
        cnt = self.lock.count
        self.lock.count = 0
        self.lock.owner = None
        for t in S.threads:
            if t.blocked is self.lock:
                t.blocked = None
        self.waiters.append(me)
        S.events.append(("wait-enter", me.name))
        ok = S.block(self, timeout)
        S.events.append(("wait-exit", me.name, "notified" if ok else "timeout"))
        if me in self.waiters:
            self.waiters.remove(me)
        while self.lock.owner is not None:
            S.block(self.lock)
        self.lock.owner = me
        self.lock.count = cnt
        return ok

    def notify_all(self):
        for t in list(self.waiters):
            self.waiters.remove(t)
            t.blocked = None
            t.deadline = None


class VTime:
    @staticmethod
    def time():
        return S.now if S else 1000.0

    monotonic = time

    @staticmethod
    def sleep(d):
        S.block(object(), d)


VTHREADING = types.SimpleNamespace(Condition=VCond, Lock=VLock)
pb.threading = VTHREADING
emcy_mod.threading = VTHREADING
emcy_mod.time = VTime
nmt_mod.threading = VTHREADING
nmt_mod.time = VTime

_get = object.__getattribute__


def interpose(cls, names):
    def g(self, name):
        v = _get(self, name)
        if name in names and controlled():
            S.point()
        return v

    def s(self, name, val):
        if name in names and controlled():
            S.point()
        object.__setattr__(self, name, val)
    cls.__getattribute__ = g
    cls.__setattr__ = s


interpose(pb.PdoMap, {"is_received", "timestamp", "data", "_task", "period"})
interpose(emcy_mod.EmcyConsumer, {"log", "active"})
interpose(nmt_mod.NmtMaster, {"_state_received", "_state", "timestamp"})


def mkod():
    od = ObjectDictionary()
    v = ODVariable("u8", 0x2000)
    v.data_type = dt.UNSIGNED8
    od.add_object(v)
    r = ODRecord("com", 0x1800)
    for s_, (n, t) in enumerate([("n", dt.UNSIGNED8), ("cob", dt.UNSIGNED32), ("tt", dt.UNSIGNED8)]):
        x = ODVariable(n, 0x1800, s_)
        x.data_type = t
        r.add_member(x)
    od.add_object(r)
    a = ODArray("map", 0x1A00)
    for s_ in range(3):
        x = ODVariable("m%d" % s_, 0x1A00, s_)
        x.data_type = dt.UNSIGNED8 if s_ == 0 else dt.UNSIGNED32
        a.add_member(x)
    od.add_object(a)
    return od


OD = mkod()


def harness_pdo():
    node = canopen.RemoteNode(3, OD)
    m = node.tpdo[1]
    m.cob_id = 0x183
    m.add_variable(0x2000)
    w = S.spawn(lambda: m.wait_for_reception(1.0), "waiter")
    S.spawn(lambda: m.on_message(0x183, bytearray(b"\x07"), 42.0), "receiver")
    return lambda: w.res


def harness_emcy(code_filter):
    c = emcy_mod.EmcyConsumer()
    w = S.spawn(lambda: c.wait(code_filter, 1.0), "waiter")

    def recv():
        c.on_emcy(0x83, b"\x10\x20\x01\x00\x00\x00\x00\x00", 1.0)   # code 0x2010
        S.events.append(("delivered", 0x2010))
        c.on_emcy(0x83, b"\x20\x30\x01\x00\x00\x00\x00\x00", 2.0)   # code 0x3020
        S.events.append(("delivered", 0x3020))
    S.spawn(recv, "receiver")

    def result():
        r = None if w.res is None else (hex(w.res.code) if hasattr(w.res, "code") else repr(w.res))
        ev = S.events
        first_wait = next((i for i, e in enumerate(ev) if e[0] == "wait-enter"), None)
        d1 = next((i for i, e in enumerate(ev) if e == ("delivered", 0x2010)), None)
        during = first_wait is not None and d1 is not None and d1 > first_wait
        return (r, "0x2010-delivered-after-first-wait-enter" if during else "0x2010-before-wait")
    return result


def harness_nmt():
    m = nmt_mod.NmtMaster(5)

    def waiter():
        try:
            return m.wait_for_heartbeat(1.0)
        except nmt_mod.NmtError as e:
            return "NmtError"
    w = S.spawn(waiter, "waiter")
    S.spawn(lambda: m.on_heartbeat(0x705, b"\x05", 1.0), "receiver")
    return lambda: w.res


def execute(harness, choices):
    global S
    S = Sched(choices)
    result = harness()
    S.run()
    return result(), S.trace, S.pre


def explore(harness, bound):
    stats = {"executions": 0, "outcomes": {}}

    def rec(prefix):
        res, trace, pre = execute(harness, prefix)
        stats["executions"] += 1
        stats["outcomes"][res] = stats["outcomes"].get(res, 0) + 1
        for i in range(len(prefix), len(trace)):
            n, _ = trace[i]
            for alt in range(1, n):
                p = [t[1] for t in trace[:i]] + [alt]
                if execute(harness, p)[2] <= bound:
                    rec(p)
    rec([])
    return stats


if __name__ == "__main__":
    for name, h in (("pdo", harness_pdo), ("emcy(any)", lambda: harness_emcy(None)),
                    ("emcy(0x2010)", lambda: harness_emcy(0x2010)), ("nmt", harness_nmt)):
        for bound in (1, 2):
            t0 = realtime.perf_counter()
            st = explore(h, bound)
            print(f"{name:14s} P<={bound}: executions={st['executions']:5d} "
                  f"outcomes={st['outcomes']}  {realtime.perf_counter() - t0:.2f}s")


# --------------------------------------------------------------------------------------------------
# second prototype harness: two SDO client threads on distinct nodes + a dispatcher thread (C03 b)
# --------------------------------------------------------------------------------------------------
import queue as _realqueue
import canopen.network as net_mod
import canopen.sdo.client as cl_mod


class VQueue:
    def __init__(self):
        self.items = []

    def put(self, x):
        if controlled():
            S.point()
        self.items.append(x)
        if S:
            for t in S.threads:
                if t.blocked is self:
                    t.blocked = None
                    t.deadline = None

    def empty(self):
        if controlled():
            S.point()
        return not self.items

    def get(self, block=True, timeout=None):
        S.point()
        while not self.items:
            if not S.block(self, timeout):
                raise _realqueue.Empty
        return self.items.pop(0)


cl_mod.queue = types.SimpleNamespace(Queue=VQueue, Empty=_realqueue.Empty)
cl_mod.time = VTime
net_mod.threading = VTHREADING
interpose(cl_mod.SdoClient, {"responses"})


def mkod2():
    od = ObjectDictionary()
    for n, i, t in (("u16", 0x2001, dt.UNSIGNED16), ("str", 0x2002, dt.VISIBLE_STRING), ("hb", 0x1017, dt.UNSIGNED16)):
        v = ODVariable(n, i)
        v.data_type = t
        v.default = 0 if t != dt.VISIBLE_STRING else ""
        od.add_object(v)
    return od


OD2 = mkod2()


class FifoBus:
    channel_info = "proto"

    def __init__(self):
        self.fifo = []
        self.nets = []
        self.wake = object()

    def attach(self, net):
        self.nets.append(net)
        bus = self

        class Port:
            channel_info = "proto"

            def send(self_p, msg):
                S.point()
                bus.fifo.append((net, msg))
                for t in S.threads:
                    if t.blocked is bus.wake:
                        t.blocked = None
        net.bus = Port()


def harness_sdo2(nclients=2, segmented=False):
    bus = FifoBus()
    m = canopen.Network()
    s = canopen.Network()
    bus.attach(m)
    bus.attach(s)
    remotes = [m.add_node(5 + i, OD2) for i in range(nclients)]
    locals_ = [s.create_node(5 + i, OD2) for i in range(nclients)]
    results = {}
    done = []

    def client(i):
        def body():
            try:
                if segmented:
                    v = "client-%d-payload" % i
                    remotes[i].sdo["str"].raw = v
                    got = remotes[i].sdo["str"].raw
                else:
                    v = 0x1111 * (i + 1)
                    remotes[i].sdo["u16"].raw = v
                    got = remotes[i].sdo["u16"].raw
                results[i] = "ok" if got == v else "WRONG %r" % (got,)
            except Exception as e:  # noqa: BLE001
                results[i] = type(e).__name__
            done.append(i)
            for t in S.threads:
                if t.blocked is bus.wake:
                    t.blocked = None
        return body

    def dispatcher():
        while True:
            while bus.fifo:
                src, msg = bus.fifo.pop(0)
                for n in bus.nets:
                    if n is not src:
                        n.listeners[0].on_message_received(msg)
            if len(done) == nclients and not bus.fifo:
                return
            S.block(bus.wake)
    for i in range(nclients):
        S.spawn(client(i), "client%d" % i)
    S.spawn(dispatcher, "dispatcher")
    return lambda: tuple(sorted(results.items()))


if __name__ == "__main__":
    for name, h in (("sdo 2 clients exp", lambda: harness_sdo2(2, False)), ("sdo 2 clients seg", lambda: harness_sdo2(2, True))):
        for bound in (0, 1, 2):
            t0 = realtime.perf_counter()
            st = explore(h, bound)
            print(f"{name:18s} P<={bound}: executions={st['executions']:6d} outcomes={st['outcomes']}  {realtime.perf_counter() - t0:.1f}s")
