"""DESIGN PROBE (throw-away, not part of the machinery).

Feasibility prototype for explorer C of DESIGN.md: real OS threads run one at a
time under a baton; virtual Lock/Condition; attribute interposers on the shared
library objects as extra scheduling points; DFS over scheduling choices with a
preemption bound.  Three tiny harnesses:

  pdo    PdoMap.wait_for_reception  x  PdoMap.on_message
  emcy   EmcyConsumer.wait          x  two on_emcy deliveries (burst)
  nmt    NmtMaster.wait_for_heartbeat x on_heartbeat

Run:  /venv/bin/python design_probes/sched_prototype.py
"""
import sys
import threading
import time as realtime
import types

sys.path.insert(0, "/repo")
import canopen  # noqa: E402
import canopen.emcy as emcy_mod  # noqa: E402
import canopen.nmt as nmt_mod  # noqa: E402
import canopen.pdo.base as pb  # noqa: E402
from canopen.objectdictionary import (ODArray, ODRecord, ODVariable,  # noqa: E402
                                      ObjectDictionary, datatypes as dt)

S = None  # current scheduler


class Sched:
    def __init__(self, choices):
        self.choices = list(choices)
        self.ci = 0
        self.threads = []
        self.cur = None
        self.trace = []      # (n_enabled, chosen)
        self.now = 1000.0
        self.pre = 0
        self.events = []     # harness-level event log (order of critical sections)

    def spawn(self, fn, name):
        t = types.SimpleNamespace(name=name, sem=threading.Semaphore(0), done=False,
                                  blocked=None, deadline=None, res=None, timedout=False)

        def body():
            t.sem.acquire()
            try:
                t.res = fn()
            except BaseException as e:  # noqa: BLE001
                t.res = e
            t.done = True
            self.main.release()
        t.th = threading.Thread(target=body)
        self.threads.append(t)
        t.th.start()
        return t

    def enabled(self):
        return [t for t in self.threads if not t.done and t.blocked is None]

    def run(self):
        self.main = threading.Semaphore(0)
        while True:
            en = self.enabled()
            if not en:
                timed = [t for t in self.threads if not t.done and t.deadline is not None]
                if not timed:
                    if all(t.done for t in self.threads):
                        break
                    raise RuntimeError("deadlock")
                t = min(timed, key=lambda t: t.deadline)   # timeouts fire only at quiescence
                self.now = t.deadline
                t.blocked = None
                t.deadline = None
                t.timedout = True
                en = [t]
            if self.cur in en:                              # canonical order: running thread first
                en.remove(self.cur)
                en.insert(0, self.cur)
            k = self.choices[self.ci] if self.ci < len(self.choices) else 0
            self.ci += 1
            self.trace.append((len(en), k))
            if k >= len(en):
                raise RuntimeError("replay divergence")
            if k > 0 and self.cur is not None and not self.cur.done and self.cur.blocked is None:
                self.pre += 1
            self.cur = en[k]
            self.cur.sem.release()
            self.main.acquire()
        for t in self.threads:
            t.th.join()

    # -- called from controlled threads -------------------------------------
    def point(self):
        me = self.cur
        self.main.release()
        me.sem.acquire()

    def block(self, on, timeout=None):
        me = self.cur
        me.blocked = on
        me.deadline = (self.now + timeout) if timeout is not None else None
        me.timedout = False
        self.main.release()
        me.sem.acquire()
        return not me.timedout


def controlled():
    return S is not None and S.cur is not None and threading.current_thread() is S.cur.th


class VLock:
    def __init__(self):
        self.owner = None
        self.count = 0

    def acquire(self, blocking=True, timeout=-1):
        S.point()
        while self.owner is not None and self.owner is not S.cur:
            S.block(self)
        self.owner = S.cur
        self.count += 1
        return True

    def release(self):
        self.count -= 1
        if self.count == 0:
            self.owner = None
            for t in S.threads:
                if t.blocked is self:
                    t.blocked = None
        S.point()

    __enter__ = acquire

    def __exit__(self, *a):
        self.release()


class VCond:
    def __init__(self, lock=None):
        self.lock = lock or VLock()
        self.waiters = []

    def __enter__(self):
        return self.lock.acquire()

    def __exit__(self, *a):
        self.lock.release()

    def wait(self, timeout=None):
        me = S.cur
        cnt = self.lock.count
        self.lock.count = 0
        self.lock.owner = None
        for t in S.threads:
            if t.blocked is self.lock:
                t.blocked = None
        self.waiters.append(me)
        ok = S.block(self, timeout)
        if me in self.waiters:
            self.waiters.remove(me)
        while self.lock.owner is not None:
            S.block(self.lock)
        self.lock.owner = me
        self.lock.count = cnt
        return ok

    def notify_all(self):
        for t in list(self.waiters):
            self.waiters.remove(t)
            t.blocked = None
            t.deadline = None


class VTime:
    @staticmethod
    def time():
        return S.now if S else 1000.0

    monotonic = time

    @staticmethod
    def sleep(d):
        S.block(object(), d)


VTHREADING = types.SimpleNamespace(Condition=VCond, Lock=VLock)
pb.threading = VTHREADING
emcy_mod.threading = VTHREADING
emcy_mod.time = VTime
nmt_mod.threading = VTHREADING
nmt_mod.time = VTime

_get = object.__getattribute__


def interpose(cls, names):
    def g(self, name):
        v = _get(self, name)
        if name in names and controlled():
            S.point()
        return v

    def s(self, name, val):
        if name in names and controlled():
            S.point()
        object.__setattr__(self, name, val)
    cls.__getattribute__ = g
    cls.__setattr__ = s


interpose(pb.PdoMap, {"is_received", "timestamp", "data", "_task", "period"})
interpose(emcy_mod.EmcyConsumer, {"log", "active"})
interpose(nmt_mod.NmtMaster, {"_state_received", "_state", "timestamp"})


def mkod():
    od = ObjectDictionary()
    v = ODVariable("u8", 0x2000)
    v.data_type = dt.UNSIGNED8
    od.add_object(v)
    r = ODRecord("com", 0x1800)
    for s_, (n, t) in enumerate([("n", dt.UNSIGNED8), ("cob", dt.UNSIGNED32), ("tt", dt.UNSIGNED8)]):
        x = ODVariable(n, 0x1800, s_)
        x.data_type = t
        r.add_member(x)
    od.add_object(r)
    a = ODArray("map", 0x1A00)
    for s_ in range(3):
        x = ODVariable("m%d" % s_, 0x1A00, s_)
        x.data_type = dt.UNSIGNED8 if s_ == 0 else dt.UNSIGNED32
        a.add_member(x)
    od.add_object(a)
    return od


OD = mkod()


def harness_pdo():
    node = canopen.RemoteNode(3, OD)
    m = node.tpdo[1]
    m.cob_id = 0x183
    m.add_variable(0x2000)
    w = S.spawn(lambda: m.wait_for_reception(1.0), "waiter")
    S.spawn(lambda: m.on_message(0x183, bytearray(b"\x07"), 42.0), "receiver")
    return lambda: w.res


def harness_emcy(code_filter):
    c = emcy_mod.EmcyConsumer()
    w = S.spawn(lambda: c.wait(code_filter, 1.0), "waiter")

    def recv():
        c.on_emcy(0x83, b"\x10\x20\x01\x00\x00\x00\x00\x00", 1.0)   # code 0x2010
        c.on_emcy(0x83, b"\x20\x30\x01\x00\x00\x00\x00\x00", 2.0)   # code 0x3020
    S.spawn(recv, "receiver")
    return lambda: (None if w.res is None else (hex(w.res.code) if hasattr(w.res, "code") else repr(w.res)))


def harness_nmt():
    m = nmt_mod.NmtMaster(5)

    def waiter():
        try:
            return m.wait_for_heartbeat(1.0)
        except nmt_mod.NmtError as e:
            return "NmtError"
    w = S.spawn(waiter, "waiter")
    S.spawn(lambda: m.on_heartbeat(0x705, b"\x05", 1.0), "receiver")
    return lambda: w.res


def execute(harness, choices):
    global S
    S = Sched(choices)
    result = harness()
    S.run()
    return result(), S.trace, S.pre


def explore(harness, bound):
    stats = {"executions": 0, "outcomes": {}}

    def rec(prefix):
        res, trace, pre = execute(harness, prefix)
        stats["executions"] += 1
        stats["outcomes"][res] = stats["outcomes"].get(res, 0) + 1
        for i in range(len(prefix), len(trace)):
            n, _ = trace[i]
            for alt in range(1, n):
                p = [t[1] for t in trace[:i]] + [alt]
                if execute(harness, p)[2] <= bound:
                    rec(p)
    rec([])
    return stats


if __name__ == "__main__":
    for name, h in (("pdo", harness_pdo), ("emcy(any)", lambda: harness_emcy(None)),
                    ("emcy(0x2010)", lambda: harness_emcy(0x2010)), ("nmt", harness_nmt)):
        for bound in (1, 2):
            t0 = realtime.perf_counter()
            st = explore(h, bound)
            print(f"{name:14s} P<={bound}: executions={st['executions']:5d} "
                  f"outcomes={st['outcomes']}  {realtime.perf_counter() - t0:.2f}s")
