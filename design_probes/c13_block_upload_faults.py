import canopen, struct, types, queue as rq
from canopen.objectdictionary import ObjectDictionary
import canopen.sdo.client as cl
def crc16(data, crc=0):
    for b in data:
        crc ^= b << 8
        for _ in range(8):
            crc = ((crc << 1) ^ 0x1021) & 0xFFFF if crc & 0x8000 else (crc << 1) & 0xFFFF
    return crc
class Clock:
    now=1000.0
    def time(s): return s.now
    def sleep(s,d): s.now+=d
CLK=Clock()
ENV=None
class VQ:
    def __init__(s): s.q=[]
    def put(s,x): s.q.append(x)
    def empty(s): return not s.q
    def get(s, block=True, timeout=None):
        if s.q:
            CLK.now+=0.00025; return s.q.pop(0)
        CLK.now+=(timeout or 0); raise rq.Empty
cl.queue=types.SimpleNamespace(Queue=VQ, Empty=rq.Empty); cl.time=CLK
class UpSrv:
    def __init__(s,data,crc=True,fault=None): s.data=data; s.crc=crc; s.fault=fault; s.st='idle'; s.sent=0; s.log=[]; s.acks=[]; s.ended=False
    def on(s,f):
        f=bytes(f); s.log.append(f.hex()); out=[]
        assert len(f)==8
        ccs=f[0]>>5
        if ccs==4: s.st='aborted'; return out
        assert ccs==5, f.hex()
        cs=f[0]&3
        if cs==0:
            s.cc=bool(f[0]&4); s.mux=f[1:4]; s.blk=f[4]; assert 1<=s.blk<=127; s.pst=f[5]
            s.off=0; s.st='wait_start'
            out.append(bytes([0xC2|(4 if s.crc else 0)])+s.mux+struct.pack("<L",len(s.data)))
        elif cs==3:
            assert s.st=='wait_start'; out+=s.block()
        elif cs==2:
            assert s.st=='wait_ack', (s.st,f.hex())
            ack=f[1]; s.acks.append(ack); newblk=f[2]
            assert ack<=len(s.cur)
            s.off+=7*ack  # bytes acknowledged (last may be short but then done)
            s.blk=newblk
            if s.off>=len(s.data):
                n=(7-len(s.data)%7)%7 if len(s.data) else 7
                c=crc16(s.data) if (s.crc and s.cc) else 0
                if s.fault==('crc',): c^=1
                s.st='wait_end'
                out.append(bytes([0xC1|(n<<2)])+struct.pack("<H",c)+bytes(5))
            else:
                out+=s.block()
        elif cs==1:
            assert s.st=='wait_end'; s.st='idle'; s.ended=True
        return out
    def block(s):
        s.cur=[]; out=[]; off=s.off
        for seq in range(1,s.blk+1):
            chunk=s.data[off:off+7]; off+=7
            last = off>=len(s.data)
            fr=bytes([seq|(0x80 if last else 0)])+chunk.ljust(7,b"\0")
            s.cur.append(fr); s.sent+=1
            if s.fault==('drop',s.sent): pass
            elif s.fault==('flip',s.sent): out.append(fr[:3]+bytes([fr[3]^0x40])+fr[4:])
            elif s.fault==('dup',s.sent): out+= [fr,fr]
            else: out.append(fr)
            if last: break
        s.st='wait_ack'; return out
od=ObjectDictionary()
def run(n,crc=True,fault=None):
    net=canopen.Network(); data=bytes(((i*37+11)%255)+1 for i in range(n)); srv=UpSrv(data,crc,fault)
    def send(can_id,d,remote=False):
        for r in srv.on(d): net.notify(0x585, bytearray(r), 0.0)
    net.send_message=send
    node=net.add_node(5,od)
    try:
        with node.sdo.open(0x2000,0,"rb",block_transfer=True,request_crc_support=crc) as fp:
            got=fp.read()
        res="ok" if got==data else "WRONG len %d vs %d"%(len(got),len(data))
    except canopen.sdo.exceptions.SdoError as e: res="sdoerr: "+str(e)[:40]
    except AssertionError as e: res="SERVER-ASSERT "+str(e)
    except Exception as e: res="EXC "+type(e).__name__+": "+str(e)[:60]
    return res,srv
for n in (1,6,7,8,14,15,100,888,889,890,891,1778,1779,2000):
    for crc in (True,False):
        r,s=run(n,crc)
        if r!="ok" or not s.ended: print("undisturbed n",n,"crc",crc,r,"ended",s.ended,"acks",s.acks)
print("undisturbed done")
from collections import Counter
for crc in (True,False):
    c=Counter()
    for n in (30,100,900):
        nseg=(n+6)//7
        for kind in ("drop","flip","dup"):
            for pos in range(1,nseg+1):
                r,s=run(n,crc,(kind,pos))
                key=(crc,kind,r.split(":")[0][:30])
                c[key]+=1
                if r.startswith("WRONG") or r.startswith("EXC") or r.startswith("SERVER"):
                    if c[key]<=3: print("crc",crc,"n",n,kind,pos,"->",r,"acks",s.acks)
    for k,v in sorted(c.items()): print(k,v)
print(run(30,True,('crc',))[0])
