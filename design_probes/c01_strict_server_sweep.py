import canopen, struct, types, queue as rq, itertools, io
from canopen.objectdictionary import ODVariable, ObjectDictionary, datatypes as dt
import canopen.sdo.client as cl
class VQ:
    def __init__(s): s.q=[]
    def put(s,x): s.q.append(x)
    def empty(s): return not s.q
    def get(s, block=True, timeout=None):
        if s.q: return s.q.pop(0)
        raise rq.Empty
cl.queue=types.SimpleNamespace(Queue=VQ, Empty=rq.Empty)
class Viol(Exception): pass
class Srv:
    def __init__(s, style="auto"): s.store={}; s.st=None; s.style=style; s.frames=[]
    def on(s,f):
        f=bytes(f); s.frames.append(f.hex())
        if len(f)!=8: raise Viol("len %d"%len(f))
        ccs=f[0]>>5
        if ccs==1:  # init download
            if f[0]&0x10: raise Viol("reserved bit")
            e=f[0]&2; sz=f[0]&1; n=(f[0]>>2)&3
            mux=f[1:4]
            if e:
                if not sz and n: raise Viol("n without s")
                ln=4-n if sz else 4
                if any(f[4+ln:]): raise Viol("padding nonzero")
                s.store[mux]=f[4:4+ln]; s.st=None
            else:
                if n: raise Viol("n in segmented init")
                size=struct.unpack_from("<L",f,4)[0] if sz else None
                if not sz and any(f[4:]): raise Viol("size bytes nonzero w/o s")
                s.st=dict(kind="dl",mux=mux,size=size,buf=b"",t=0,done=False)
            return [bytes([0x60])+mux+bytes(4)]
        if ccs==0:
            st=s.st
            if not st or st["kind"]!="dl" or st["done"]: raise Viol("unexpected dl segment "+f.hex())
            t=(f[0]>>4)&1; n=(f[0]>>1)&7; c=f[0]&1
            if t!=st["t"]: raise Viol("toggle")
            if any(f[8-n:]) : raise Viol("seg padding nonzero")
            st["buf"]+=f[1:8-n]; st["t"]^=1
            if c:
                if st["size"] is not None and st["size"]!=len(st["buf"]): raise Viol("size mismatch declared %s sent %d"%(st["size"],len(st["buf"])))
                s.store[st["mux"]]=st["buf"]; st["done"]=True
            return [bytes([0x20|(t<<4)])+bytes(7)]
        if ccs==2:
            if f[0]&0x1f or any(f[4:]): raise Viol("upload req junk")
            mux=f[1:4]; data=s.store[mux]; style=s.style
            if style=="exp_s" and 1<=len(data)<=4:
                return [bytes([0x43|((4-len(data))<<2)])+mux+data.ljust(4,b"\0")]
            if style=="exp_nos" and 1<=len(data)<=4:
                return [bytes([0x42])+mux+data.ljust(4,b"\0")]
            sz = style!="seg_nos"
            s.st=dict(kind="ul",mux=mux,data=data,t=0,done=False)
            return [bytes([0x40|(1 if sz else 0)])+mux+(struct.pack("<L",len(data)) if sz else bytes(4))]
        if ccs==3:
            st=s.st
            if not st or st["kind"]!="ul" or st["done"]: raise Viol("unexpected ul segment")
            if f[0]&0x0f or any(f[1:]): raise Viol("ul seg junk")
            t=(f[0]>>4)&1
            if t!=st["t"]: raise Viol("ul toggle")
            chunk=st["data"][:7]; st["data"]=st["data"][7:]; c=0 if st["data"] else 1
            st["t"]^=1; st["done"]=bool(c)
            return [bytes([(t<<4)|((7-len(chunk))<<1)|c])+chunk.ljust(7,b"\0")]
        raise Viol("ccs %d"%ccs)
od=ObjectDictionary()
v=ODVariable("u16",0x2001); v.data_type=dt.UNSIGNED16; od.add_object(v)
def mk(style="auto"):
    net=canopen.Network(); srv=Srv(style)
    def send(can_id,data,remote=False):
        assert can_id==0x605
        for r in srv.on(data): net.notify(0x585, bytearray(r), 0.0)
    net.send_message=send
    node=net.add_node(5, od); node.sdo.RESPONSE_TIMEOUT=0
    return node,srv
def pat(n): return bytes(((i*37+11)%255)+1 for i in range(n))
def compositions(n):
    if n==0: yield []; return
    for bits in range(1<<(n-1)):
        parts=[];cur=1
        for i in range(n-1):
            if bits>>i&1: parts.append(cur);cur=1
            else: cur+=1
        parts.append(cur); yield parts
bad=0; cnt=0
for n in range(0,12):
    p=pat(n)
    for api in ("download","force","open_size","open_nosize","open_size_force"):
        for buffering in (0,7,8,1024):
            splits = list(compositions(n)) if api.startswith("open") and n<=9 else [[n]]
            for sp in splits:
                node,srv=mk(); cnt+=1
                try:
                    if api=="download": node.sdo.download(0x2000,1,p)
                    elif api=="force": node.sdo.download(0x2000,1,p,force_segment=True)
                    else:
                        kw={}
                        if "size" in api and "nosize" not in api: kw["size"]=n
                        if api.endswith("force"): kw["force_segment"]=True
                        with node.sdo.open(0x2000,1,"wb",buffering=buffering,**kw) as fp:
                            if buffering==0:
                                rest=p
                                guard=0
                                while rest:
                                    k=fp.write(rest); guard+=1
                                    if guard>100: raise Viol("raw write no progress")
                                    rest=rest[k or 0:]
                            else:
                                off=0
                                for k in sp: fp.write(p[off:off+k]); off+=k
                    got=srv.store.get(b"\x00\x20\x01")
                    if got!=p: raise Viol("stored %r != %r"%(got,p))
                except Exception as e:
                    bad+=1
                    if bad<15: print("DL n",n,api,buffering,sp,type(e).__name__,e, srv.frames[-3:])
print("download cases",cnt,"bad",bad)
bad=0;cnt=0
for n in range(0,40):
    p=pat(n)
    for style in ("exp_s","exp_nos","seg_s","seg_nos"):
        for mode in ("upload","open0","open7","open1024","read3"):
            node,srv=mk(style); srv.store[b"\x00\x20\x01"]=p; cnt+=1
            try:
                if mode=="upload": got=node.sdo.upload(0x2000,1)
                elif mode=="read3":
                    with node.sdo.open(0x2000,1,"rb",buffering=7) as fp:
                        got=b""
                        while True:
                            c=fp.read(3)
                            if not c: break
                            got+=c
                else:
                    with node.sdo.open(0x2000,1,"rb",buffering=int(mode[4:])) as fp: got=fp.read()
                exp=p
                if style=="exp_nos" and 1<=n<4: exp=p.ljust(4,b"\0")   # unknowable without OD
                if got!=exp: raise Viol("got %r exp %r"%(got,exp))
            except Exception as e:
                bad+=1
                if bad<15: print("UL n",n,style,mode,type(e).__name__,e)
print("upload cases",cnt,"bad",bad)
