"""DESIGN PROBE (throw-away): real client block download against a conformant reference block server with
block-size plans and dropped segments (D <= 2)."""
import sys, struct, types, queue as rq, itertools, collections, logging
sys.path.insert(0, "/repo")
import canopen
import canopen.sdo.client as cl
from canopen.objectdictionary import ObjectDictionary
logging.disable(logging.CRITICAL)
def crc16(data, crc=0):
    for b in data:
        crc ^= b << 8
        for _ in range(8):
            crc = ((crc << 1) ^ 0x1021) & 0xFFFF if crc & 0x8000 else (crc << 1) & 0xFFFF
    return crc
class Clock:
    now = 1000.0
    def time(s): return s.now
    def sleep(s, d): s.now += d
CLK = Clock()
class VQ:
    def __init__(s): s.q = []
    def put(s, x): s.q.append(x)
    def empty(s): return not s.q
    def get(s, block=True, timeout=None):
        if s.q: return s.q.pop(0)
        CLK.now += timeout or 0; raise rq.Empty
cl.queue = types.SimpleNamespace(Queue=VQ, Empty=rq.Empty); cl.time = CLK
class Viol(Exception): pass
class BlkSrv:
    def __init__(s, plan, grant_crc=True, drops=()):
        s.plan = list(plan); s.pi = 0; s.grant = grant_crc; s.drops = set(drops); s.segno = 0
        s.st = "idle"; s.store = {}; s.viol = []; s.frames = []
    def nextblk(s):
        b = s.plan[min(s.pi, len(s.plan) - 1)]; s.pi += 1; return b
    def abort(s, code):
        s.st = "idle"; return [bytes([0x80]) + s.mux + struct.pack("<L", code)]
    def on(s, f):
        f = bytes(f); s.frames.append(f.hex())
        if len(f) != 8: s.viol.append("frame length %d" % len(f)); return []
        if s.st == "seg":
            s.segno += 1
            if s.segno in s.drops: return []
            seq = f[0] & 0x7F; c = f[0] >> 7
            if seq == 0 or seq > s.blk: s.viol.append("seqno %d out of 1..%d" % (seq, s.blk))
            if seq == s.ack + 1 and not s.sawlast:
                s.ack = seq; s.cur.append(f[1:8])
                if c: s.sawlast = True
            if seq == s.blk or c:
                s.buf += b"".join(s.cur); s.cur = []
                ack = s.ack; s.ack = 0; s.blk = s.nextblk()
                if s.sawlast: s.st = "end"
                return [bytes([0xA2, ack, s.blk]) + bytes(5)]
            return []
        ccs = f[0] >> 5
        if ccs == 4: s.st = "idle"; return []
        if ccs != 6: s.viol.append("unexpected ccs %d in state %s" % (ccs, s.st)); return s.abort(0x05040001) if s.st != "idle" else []
        if s.st == "idle":
            if f[0] & 1: s.viol.append("end without transfer"); return []
            if f[0] & 0x18: s.viol.append("reserved bits in initiate")
            s.mux = f[1:4]; s.cc = bool(f[0] & 4); s.size = struct.unpack_from("<L", f, 4)[0] if f[0] & 2 else None
            if not f[0] & 2 and any(f[4:]): s.viol.append("size bytes without s")
            s.buf = b""; s.cur = []; s.ack = 0; s.sawlast = False; s.blk = s.nextblk(); s.st = "seg"
            return [bytes([0xA0 | (4 if s.grant else 0)]) + s.mux + bytes([s.blk, 0, 0, 0])]
        if s.st == "end":
            if f[0] & 3 != 1: s.viol.append("expected end, got %s" % f.hex()); return s.abort(0x05040001)
            n = (f[0] >> 2) & 7
            data = s.buf[:len(s.buf) - n] if n else s.buf
            if len(s.buf) % 7 or n > 6 and len(s.buf): pass
            use_crc = s.grant and s.cc
            if use_crc and struct.unpack_from("<H", f, 1)[0] != crc16(data): return s.abort(0x05040004)
            if any(f[3:]) or (not use_crc and any(f[1:3])): s.viol.append("reserved bytes in end frame " + f.hex())
            if s.size is not None and s.size != len(data): s.viol.append("declared size %d != received %d" % (s.size, len(data))); return s.abort(0x06070010)
            s.store[bytes(s.mux)] = data; s.st = "idle"
            return [bytes([0xA1]) + bytes(7)]
od = ObjectDictionary()
def pat(n): return bytes(((i * 37 + 11) % 255) + 1 for i in range(n))
def run(n, plan, crc_req=True, grant=True, drops=()):
    net = canopen.Network(); srv = BlkSrv(plan, grant, drops)
    def send(can_id, d, remote=False):
        for r in (srv.on(d) or []): net.notify(0x585, bytearray(r), 0.0)
    net.send_message = send
    node = net.add_node(5, od); p = pat(n)
    try:
        with node.sdo.open(0x2000, 0, "wb", size=n, block_transfer=True, request_crc_support=crc_req) as fp:
            fp.write(p)
        res = "ok"
    except Exception as e:
        res = type(e).__name__
    return res, srv.store.get(b"\x00\x20\x00") == p, srv
stats = collections.Counter(); ex = {}
def note(k, d): stats[k] += 1; ex.setdefault(k, d)
# D = 0: all plans over {1,2,3,5,127} for n <= 36
for n in list(range(1, 37)) + [41, 42, 43, 48, 49, 50, 63, 64, 888, 889, 890, 1778]:
    nseg = (n + 6) // 7
    plans = itertools.product((1, 2, 3, 5, 127), repeat=min(nseg, 4)) if n <= 36 else [(127,), (1,), (2, 3), (5, 1, 127)]
    for plan in plans:
        for crc_req, grant in ((True, True), (True, False), (False, True)):
            res, okc, srv = run(n, plan, crc_req, grant)
            if res != "ok" or not okc or srv.viol: note(("D0", res, okc, tuple(srv.viol[:1])), (n, plan, crc_req, grant, srv.frames[-3:]))
            else: stats["D0 ok"] += 1
# D = 1, 2
for n in (8, 15, 22, 30, 43, 50, 64):
    nseg = (n + 6) // 7
    for plan in ((127,), (1,), (2,), (3,), (2, 3), (3, 1, 2), (5,)):
        for k in (1, 2):
            for drops in itertools.combinations(range(1, nseg + 4), k):
                res, okc, srv = run(n, plan, True, True, drops)
                # classify the loss: position of first drop inside its sub-block (computed by the block plan on first transmission)
                if res == "ok" and not okc: note(("D%d RETURNS OK BUT NOT COMMITTED" % k,), (n, plan, drops, srv.frames[-4:]))
                if srv.viol: note(("D%d protocol violation" % k, srv.viol[0]), (n, plan, drops))
                if k == 1:
                    d = drops[0]
                    if d > nseg: continue
                    # sub-block structure of the first transmission
                    pos = 0; bi = 0; first = 1
                    while True:
                        b = plan[min(bi, len(plan) - 1)]; last = min(first + b - 1, nseg)
                        if first <= d <= last: break
                        first = last + 1; bi += 1
                    final_block = last == nseg
                    last_of_block = d == last
                    cls = ("final" if final_block else "nonfinal") + ("-lastseg" if last_of_block else "-inner")
                    note(("D1", cls, res, "committed" if okc else "not-committed"), (n, plan, drops))
for k, v in sorted(stats.items(), key=str): print(v, k, ex.get(k, ""))
