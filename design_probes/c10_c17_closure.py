"""DESIGN PROBE (throw-away): size of the closure BFS claimed for C10 and C17."""
import sys, collections, logging, itertools, time
sys.path.insert(0, "/repo")
import canopen
from canopen.objectdictionary import ODVariable, ODRecord, ODArray, ObjectDictionary, datatypes as dt
logging.disable(logging.CRITICAL)
def mkod():
    od = ObjectDictionary()
    v = ODVariable("hb", 0x1017); v.data_type = dt.UNSIGNED16; v.default = 0; od.add_object(v)
    v = ODVariable("u8", 0x2000); v.data_type = dt.UNSIGNED8; v.default = 0; od.add_object(v)
    r = ODRecord("com", 0x1800)
    for s_, (n, t) in enumerate([("n", dt.UNSIGNED8), ("cob", dt.UNSIGNED32), ("tt", dt.UNSIGNED8)]):
        x = ODVariable(n, 0x1800, s_); x.data_type = t; r.add_member(x)
    od.add_object(r)
    a = ODArray("map", 0x1A00)
    for s_ in range(3):
        x = ODVariable("m%d" % s_, 0x1A00, s_); x.data_type = dt.UNSIGNED8 if s_ == 0 else dt.UNSIGNED32; a.add_member(x)
    od.add_object(a)
    return od
OD = mkod()
class Task:
    def __init__(s, bus, msg, period): s.bus = bus; s.msg = msg; s.period = period; s.stopped = False
    def stop(s): s.stopped = True
class TaskM(Task):
    def modify_data(s, msg): s.msg = msg
class Bus:
    channel_info = "probe"
    def __init__(s, modifiable): s.sent = []; s.tasks = []; s.mod = modifiable
    def send(s, m): s.sent.append(m)
    def send_periodic(s, msg, period):
        t = (TaskM if s.mod else Task)(s, msg, period); s.tasks.append(t); return t
    def shutdown(s): pass
    def live(s): return sorted((t.msg.arbitration_id, bytes(t.msg.data), t.period, t.msg.is_remote_frame) for t in s.tasks if not t.stopped)

# ---------------- C10 -----------------
class Rec:
    def __init__(s, name, log): s.name = name; s.log = log
    def __call__(s, cid, data, ts): s.log.append((s.name, cid, bytes(data), ts))
    def __repr__(s): return s.name
IDS = tuple(int(x,16) for x in sys.argv[2].split(",")) if len(sys.argv)>2 else (0x000, 0x585)
NODEIDS = tuple(int(x) for x in sys.argv[3].split(",")) if len(sys.argv)>3 else (5,)
PART = sys.argv[1] if len(sys.argv)>1 else "c10"
def c10_events():
    ev = []
    for i in IDS:
        for c in "ab":
            ev += [("sub", i, c), ("unsub", i, c)]
        ev.append(("unsuball", i))
    for nid in NODEIDS:
        ev += [("remote", nid), ("local", nid), ("del", nid)]
    return ev
def c10_build(hist):
    net = canopen.Network(Bus(True)); log = []; cbs = {c: Rec(c, log) for c in "ab"}; ok = True
    for e in hist:
        try:
            if e[0] == "sub": net.subscribe(e[1], cbs[e[2]])
            elif e[0] == "unsub": net.unsubscribe(e[1], cbs[e[2]])
            elif e[0] == "unsuball": net.unsubscribe(e[1])
            elif e[0] == "remote": net.add_node(canopen.RemoteNode(e[1], OD))
            elif e[0] == "local": net.add_node(canopen.LocalNode(e[1], OD))
            elif e[0] == "del": del net[e[1]]
        except (KeyError, ValueError):
            ok = False
    return net, ok
def c10_canon(net):
    def nm(cb):
        o = getattr(cb, "__self__", cb)
        return (type(o).__name__, getattr(o, "id", getattr(o, "name", getattr(o, "rx_cobid", "")))) if not isinstance(cb, Rec) else cb.name
    return (tuple(sorted((k, tuple(str(nm(c)) + getattr(c, "__name__", "") for c in v)) for k, v in net.subscribers.items())),
            tuple(sorted((k, type(v).__name__) for k, v in net.nodes.items())))
t0 = time.time()
seen = {c10_canon(c10_build(())[0])}; frontier = collections.deque([()] if PART=="c10" else []); trans = 0; undefined = 0
EV = c10_events()
while frontier:
    h = frontier.popleft()
    for e in EV:
        net, ok = c10_build(h + (e,)); trans += 1
        if not ok: undefined += 1; continue
        k = c10_canon(net)
        if k not in seen: seen.add(k); frontier.append(h + (e,))
    if len(seen) > 200000 or time.time()-t0 > 600: print("cap", len(seen), len(frontier), len(h)); break
print("C10 closure: states", len(seen), "transitions", trans, "undefined-op transitions", undefined, "%.1fs" % (time.time() - t0))

# ---------------- C17 -----------------
def c17_events():
    return [("sync_start", 0.1), ("sync_start", 0.2), ("sync_start", None), ("sync_stop",),
            ("pdo_start", 0.1), ("pdo_start", 0.5), ("pdo_stop",), ("pdo_set", 0), ("pdo_set", 7), ("pdo_update",),
            ("nmt", "OPERATIONAL"), ("nmt", "PRE-OPERATIONAL"), ("nmt", "RESET"), ("nmt", "STOPPED"),
            ("hb", 0), ("hb", 100), ("hb", 250), ("cmd", 1), ("cmd", 128), ("cmd", 129),
            ("guard_start", 0.1), ("guard_start", 0.3), ("guard_stop",), ("disconnect",)]
def c17_build(hist, mod):
    bus = Bus(mod); net = canopen.Network(bus)
    rem = net.add_node(canopen.RemoteNode(5, OD)); loc = net.add_node(canopen.LocalNode(6, OD))
    m = rem.tpdo[1]; m.cob_id = 0x185; m.add_variable(0x2000)
    ok = True
    for e in hist:
        try:
            k = e[0]
            if k == "sync_start": net.sync.start(e[1])
            elif k == "sync_stop": net.sync.stop()
            elif k == "pdo_start": m.start(e[1])
            elif k == "pdo_stop": m.stop()
            elif k == "pdo_set": m[0].raw = e[1]
            elif k == "pdo_update": m.update()
            elif k == "nmt": loc.nmt.state = e[1]
            elif k == "hb": loc.sdo[0x1017].raw = e[1]
            elif k == "cmd": net.notify(0, bytearray([e[1], 6]), 0.0)
            elif k == "guard_start": rem.nmt.start_node_guarding(e[1])
            elif k == "guard_stop": rem.nmt.stop_node_guarding()
            elif k == "disconnect":
                net.disconnect()
        except (ValueError, RuntimeError, AttributeError) as ex:
            ok = False
    return net, bus, rem, loc, m, ok
viol = collections.Counter(); ex = {}
for mod in ((True, False) if PART=="c17" else ()):
    t0 = time.time()
    def canon(b):
        net, bus, rem, loc, m, ok = b
        return (tuple(bus.live()), net.sync.period, net.sync._task is not None, m.period, m._task is not None, bytes(m.data),
                loc.nmt._state, loc.nmt._heartbeat_time_ms, loc.nmt._send_task is not None, rem.nmt._node_guarding_producer is not None,
                tuple(sorted(loc.data_store.get(0x1017, {}).items())), net.bus is None)
    seen = {canon(c17_build((), mod))}; frontier = collections.deque([()]); trans = 0
    while frontier:
        h = frontier.popleft()
        if h and h[-1][0] == "disconnect": continue
        for e in c17_events():
            b = c17_build(h + (e,), mod); trans += 1
            if not b[5]: continue
            live = b[1].live()
            ids = collections.Counter(x[0] for x in live)
            for cid, n in ids.items():
                if n > 1:
                    viol[(mod, "multiple live tasks for 0x%X" % cid)] += 1
                    if (mod, cid) not in ex or len(h) + 1 < len(ex[(mod, cid)]): ex[(mod, cid)] = h + (e,)
            k = canon(b)
            if k not in seen: seen.add(k); frontier.append(h + (e,))
        if len(seen) > 100000 or time.time()-t0 > 500: print("cap", len(seen), len(frontier), len(h)); break
    print("C17 closure mod=%s: states" % mod, len(seen), "transitions", trans, "%.1fs" % (time.time() - t0))
for k, v in viol.items(): print(v, k)
for k, v in ex.items(): print("shortest", k, v)
