"""DESIGN PROBE (throw-away): PDO producer -> consumer over a simulated bus; both directions; colliding COB-IDs; RTR rule."""
import sys, struct, collections, logging, itertools
sys.path.insert(0, "/repo")
import canopen
from canopen.objectdictionary import ODVariable, ODRecord, ODArray, ObjectDictionary, datatypes as dt
logging.disable(logging.CRITICAL)
def mkod():
    od = ObjectDictionary()
    for i, (n, t) in enumerate([("u8", dt.UNSIGNED8), ("i16", dt.INTEGER16), ("u32", dt.UNSIGNED32), ("flag", dt.BOOLEAN), ("i8", dt.INTEGER8)]):
        v = ODVariable(n, 0x2000 + i); v.data_type = t; v.pdo_mappable = True; v.default = 0; od.add_object(v)
    v = ODVariable("hb", 0x1017); v.data_type = dt.UNSIGNED16; v.default = 0; od.add_object(v)
    def pdo(base, cob, entries):
        r = ODRecord("com%x" % base, base)
        for s, (n, t, d) in enumerate([("n", dt.UNSIGNED8, 2), ("cob", dt.UNSIGNED32, cob), ("tt", dt.UNSIGNED8, 255)]):
            x = ODVariable(n, base, s); x.data_type = t; x.default = d; r.add_member(x)
        od.add_object(r)
        a = ODArray("map%x" % (base + 0x200), base + 0x200)
        for s in range(0, 9):
            x = ODVariable("m%d" % s, base + 0x200, s); x.data_type = dt.UNSIGNED8 if s == 0 else dt.UNSIGNED32
            x.default = len(entries) if s == 0 else (entries[s - 1] if s <= len(entries) else 0); a.add_member(x)
        od.add_object(a)
    pdo(0x1400, 0x205, [0x20010010, 0x20000008])           # RPDO1: i16, u8
    pdo(0x1401, 0x305, [0x20020020])                       # RPDO2: u32
    pdo(0x1800, 0x185, [0x20000004, 0x20040004, 0x20030001, 0x20010010])   # TPDO1: u8:4, i8:4, b:1, i16 (unaligned i16!)
    pdo(0x1801, 0x185, [0x20020020])                       # TPDO2: same COB-ID as TPDO1 (collision)
    pdo(0x1802, 0x40000385, [0x20000008])                  # TPDO3: RTR not allowed
    return od
OD = mkod()
class Sim:
    def __init__(s):
        s.frames = []; s.nets = []; s.ts = 100.0
    def attach(s, net):
        s.nets.append(net)
        def send(cid, data, remote=False, net=net):
            s.ts += 1.0; s.frames.append((cid, bytes(data), remote, s.ts))
            if remote: return
            for o in s.nets:
                if o is not net: o.notify(cid, bytearray(data), s.ts)
        net.send_message = send
sim = Sim(); A = canopen.Network(); B = canopen.Network(); sim.attach(A); sim.attach(B)
master = A.add_node(5, OD); dev = B.create_node(5, OD)
master.pdo.read(from_od=True); dev.pdo.read(from_od=True)
prob = collections.Counter(); ex = {}
def note(k, d): prob[k] += 1; ex.setdefault(k, d)
# master -> device (RPDO1)
calls = []
dev.rpdo[1].add_callback(lambda m: calls.append(("rpdo1", bytes(m.data)))); dev.rpdo[2].add_callback(lambda m: calls.append(("rpdo2", bytes(m.data))))
for v16, v8 in itertools.product((-32768, -1, 0, 1, 32767), (0, 1, 255)):
    master.rpdo[1]["i16"].raw = v16; master.rpdo[1]["u8"].raw = v8
    calls.clear(); before2 = bytes(dev.rpdo[2].data); master.rpdo[1].transmit()
    f = sim.frames[-1]
    if f[0] != 0x205 or f[1] != bytes(master.rpdo[1].data): note("frame", f)
    if (dev.rpdo[1]["i16"].raw, dev.rpdo[1]["u8"].raw) != (v16, v8): note("consumer values", (v16, v8))
    if dev.rpdo[1].timestamp != f[3]: note("timestamp", None)
    if calls != [("rpdo1", f[1])]: note("callbacks", calls)
    if bytes(dev.rpdo[2].data) != before2: note("other map touched", None)
# device -> master (TPDO1 with sub-byte fields and an unaligned i16), TPDO2 collides
t1, t2 = dev.tpdo[1], dev.tpdo[2]
for a, b, c, d in itertools.product((0, 15), (-8, -1, 7), (False, True), (-32768, -2, 0x1234)):
    try:
        t1["u8"].raw = a; t1["i8"].raw = b; t1["flag"].raw = c; t1["i16"].raw = d
    except Exception as e:
        note("producer write raises %s" % type(e).__name__, (a, b, c, d, str(e)[:50])); continue
    own = None
    try: own = (t1["u8"].raw, t1["i8"].raw, t1["flag"].raw, t1["i16"].raw)
    except Exception as e: note("producer read raises %s" % type(e).__name__, str(e)[:50])
    t1.transmit(); f = sim.frames[-1]
    if bytes(master.tpdo[1].data) != f[1]: note("consumer frame", None)
    try:
        got = (master.tpdo[1]["u8"].raw, master.tpdo[1]["i8"].raw, master.tpdo[1]["flag"].raw, master.tpdo[1]["i16"].raw)
        if got != (a, b, c, d): note("consumer != written (C05 territory?) own==got: %s" % (own == got), ((a, b, c, d), got))
    except Exception as e: note("consumer read raises %s" % type(e).__name__, str(e)[:50])
    # collision: TPDO2 subscribed to the same id on the master also updated
    if bytes(master.tpdo[2].data) != f[1]: note("colliding map not updated", None)
# RTR
n0 = len(sim.frames); master.tpdo[1].remote_request(); master.tpdo[3].remote_request()
master.tpdo[2].enabled = False; master.tpdo[2].remote_request()
rtr = sim.frames[n0:]
if [(f[0], f[2]) for f in rtr] != [(0x185, True)]: note("rtr rule", rtr)
for k, n in sorted(prob.items()): print(n, k, ex[k])
print("done; frames", len(sim.frames))
print([(hex(v.index), v.length, v.offset, v.name) for v in t1.map])
print([(hex(v.index), v.length, v.offset, v.name) for v in master.tpdo[1].map])
try: print(t1["i16"])
except Exception as e: print("ERR", e)
try: print(t1["flag"])
except Exception as e: print("ERR", e)
