"""DESIGN PROBE (throw-away): PdoMap.save()/read() against a strict CiA 301 PDO parameter device."""
import sys, struct, itertools, collections, logging
sys.path.insert(0, "/repo")
import canopen
from canopen.objectdictionary import ODVariable, ODRecord, ODArray, ObjectDictionary, datatypes as dt
logging.disable(logging.CRITICAL)
OBJS = [(0x2000, 0, 8), (0x2001, 0, 16), (0x2002, 0, 32)]
def mkod(optional=True):
    od = ObjectDictionary()
    for (i, s, l), t in zip(OBJS, (dt.UNSIGNED8, dt.INTEGER16, dt.UNSIGNED32)):
        v = ODVariable("o%x" % i, i); v.data_type = t; v.pdo_mappable = True; od.add_object(v)
    for base in (0x1400, 0x1403, 0x1404, 0x15FF, 0x1800, 0x1803, 0x1804, 0x19FF):
        r = ODRecord("com%x" % base, base)
        subs = [(0, "n", dt.UNSIGNED8), (1, "cob", dt.UNSIGNED32), (2, "tt", dt.UNSIGNED8)]
        if optional: subs += [(3, "inh", dt.UNSIGNED16), (5, "evt", dt.UNSIGNED16), (6, "sync", dt.UNSIGNED8)]
        for s, n, t in subs:
            v = ODVariable(n, base, s); v.data_type = t; r.add_member(v)
        od.add_object(r)
        a = ODArray("map%x" % (base + 0x200), base + 0x200)
        for s in range(0, 9):
            v = ODVariable("m%d" % s, base + 0x200, s); v.data_type = dt.UNSIGNED8 if s == 0 else dt.UNSIGNED32; a.add_member(v)
        od.add_object(a)
    return od
class StrictDevice:
    def __init__(s, com, mapi, optional, prior):
        s.com, s.map, s.log, s.refused = com, mapi, [], []
        s.store = {(com, 0): b"\x06" if optional else b"\x02", (com, 1): struct.pack("<L", 0x80000000 | 0x181), (com, 2): b"\xff", (mapi, 0): b"\x00"}
        if optional: s.store.update({(com, 3): b"\0\0", (com, 5): b"\0\0", (com, 6): b"\0"})
        for k in range(1, 9): s.store[(mapi, k)] = bytes(4)
        if prior == "valid1":
            s.store[(com, 1)] = struct.pack("<L", 0x181); s.store[(mapi, 0)] = b"\x01"; s.store[(mapi, 1)] = struct.pack("<L", 0x20020020)
        if prior == "valid8":
            s.store[(com, 1)] = struct.pack("<L", 0x181); s.store[(mapi, 0)] = b"\x08"
            for k in range(1, 9): s.store[(mapi, k)] = struct.pack("<L", 0x20000008)
    def valid(s): return not struct.unpack("<L", s.store[(s.com, 1)])[0] & 0x80000000
    def upload(s, i, si):
        if (i, si) not in s.store: raise canopen.SdoAbortedError(0x06090011)
        return s.store[(i, si)]
    def download(s, i, si, data, force_segment=False):
        data = bytes(data); s.log.append((i, si, data))
        def refuse(code, why):
            s.refused.append((i, si, data.hex(), why)); raise canopen.SdoAbortedError(code)
        if (i, si) not in s.store: refuse(0x06090011, "no such sub")
        if len(data) != len(s.store[(i, si)]): refuse(0x06070010, "length")
        if i == s.com and si == 1:
            new = struct.unpack("<L", data)[0]; old = struct.unpack("<L", s.store[(i, si)])[0]
            if not old & 0x80000000 and not new & 0x80000000 and (old ^ new) & 0x3FFFFFFF: refuse(0x06090030, "cob change while valid")
            if not new & 0x80000000:
                n = s.store[(s.map, 0)][0]
                total = sum(struct.unpack("<L", s.store[(s.map, k)])[0] & 0xFF for k in range(1, n + 1))
                if total > 64: refuse(0x06040042, "length exceeded at validation")
        elif i == s.com and s.valid(): refuse(0x08000022, "comm param write while valid")
        elif i == s.map:
            if s.valid(): refuse(0x06010000, "mapping write while valid")
            if si >= 1 and s.store[(s.map, 0)][0] != 0: refuse(0x06010000, "entry write while count != 0")
            if si == 0 and data[0] > 0:
                total = 0
                for k in range(1, data[0] + 1):
                    e = struct.unpack("<L", s.store[(s.map, k)])[0]
                    if e == 0: refuse(0x06040041, "count beyond written entries")
                    total += e & 0xFF
                if total > 64: refuse(0x06040042, "length")
        s.store[(i, si)] = data
problems = collections.Counter(); ex = {}
def note(k, d): problems[k] += 1; ex.setdefault(k, d)
def mknode(od, dev):
    net = canopen.Network(); net.bus = object()
    n = canopen.RemoteNode(5, od); net.add_node(n); n.sdo.upload = dev.upload; n.sdo.download = dev.download
    return net, n
mappings = [[]] + [[o] for o in OBJS] + [[a, b] for a in OBJS for b in OBJS] + [[OBJS[0]] * 8]
count = 0
for optional in (True, False):
  od = mkod(optional)
  for kind, num in (("tpdo", 1), ("tpdo", 4), ("tpdo", 5), ("tpdo", 512), ("rpdo", 1), ("rpdo", 512)):
    com = (0x1800 if kind == "tpdo" else 0x1400) + num - 1; mapi = com + 0x200
    for prior in ("blank", "valid1", "valid8"):
      for cob in (0x181, 0x7FF, 0x800, 0x1FFFFFFF, 1):
        for enabled, rtr in itertools.product((True, False), repeat=2):
          for tt in (0, 1, 240, 253, 254, 255):
            for timers in ((None, None, None), (0, 0, 0), (0xFFFF, 0xFFFF, 0xFF)) if optional else ((None, None, None),):
              for mp in (mappings if (cob, tt) == (0x181, 255) or prior == "blank" and tt in (0, 254) else mappings[:3]):
                dev = StrictDevice(com, mapi, optional, prior)
                net, n = mknode(od, dev); m = getattr(n, kind)[num]; count += 1
                try:
                    m.read()
                    dev.log.clear()
                    m.cob_id, m.enabled, m.rtr_allowed, m.trans_type = cob, enabled, rtr, tt
                    m.inhibit_time, m.event_timer, m.sync_start_value = timers
                    m.clear()
                    for (i, s, l) in mp: m.add_variable(i, s, l)
                    m.save()
                except Exception as e:
                    note("save raises %s" % type(e).__name__, (kind, num, prior, hex(cob), enabled, rtr, tt, timers, mp, str(e)[:60], dev.refused[-1:])); continue
                if dev.refused: note("device refused: " + dev.refused[0][3], (kind, num, prior, hex(cob), enabled, tt, mp, dev.refused[0]))
                # encodings
                w1 = [d for (i, si, d) in dev.log if (i, si) == (com, 1)]
                if struct.unpack("<L", w1[0])[0] != (cob | 0x80000000 | (0 if rtr else 0x40000000)): note("first cob write", w1[0].hex())
                final = struct.unpack("<L", dev.store[(com, 1)])[0]
                if final != (cob | (0 if enabled else 0x80000000) | (0 if rtr else 0x40000000)): note("final cob value", (hex(final), hex(cob), enabled, rtr))
                if dev.store[(mapi, 0)][0] != len(mp): note("final count", (dev.store[(mapi, 0)], len(mp)))
                for k, (i, s, l) in enumerate(mp, 1):
                    if struct.unpack("<L", dev.store[(mapi, k)])[0] != (i << 16 | s << 8 | l): note("entry encoding", k)
                # read back on a fresh node
                net2, n2 = mknode(od, dev); m2 = getattr(n2, kind)[num]; m2.read()
                got = (m2.cob_id, m2.enabled, m2.rtr_allowed, m2.trans_type, [(v.index, v.subindex, v.length) for v in m2.map])
                exp = (cob, enabled, rtr, tt, mp)
                if got != exp: note("readback differs", (got, exp))
                if tt >= 254 and optional and timers[0] is not None and (m2.inhibit_time, m2.event_timer, m2.sync_start_value) != timers: note("timers readback", ((m2.inhibit_time, m2.event_timer, m2.sync_start_value), timers))
                sub = cob in net2.subscribers and any(getattr(c, "__self__", None) is m2 for c in net2.subscribers[cob])
                if sub != enabled: note("fresh-node subscription != enabled", (sub, enabled))
print("cases", count)
for k, n in sorted(problems.items()): print(n, k, ex[k])
