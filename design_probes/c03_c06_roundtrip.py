"""DESIGN PROBE (throw-away): typed round trips (C03a) and refusals (C06) over real client <-> real server, inline."""
import sys, struct, math, collections, logging
sys.path.insert(0, "/repo")
import canopen
from canopen.objectdictionary import ODVariable, ODRecord, ODArray, ObjectDictionary, datatypes as dt
logging.disable(logging.CRITICAL)
INT = {n: getattr(dt, n) for n in "INTEGER8 INTEGER16 INTEGER24 INTEGER32 INTEGER40 INTEGER48 INTEGER56 INTEGER64 UNSIGNED8 UNSIGNED16 UNSIGNED24 UNSIGNED32 UNSIGNED40 UNSIGNED48 UNSIGNED56 UNSIGNED64".split()}
OTHER = {"BOOLEAN": dt.BOOLEAN, "REAL32": dt.REAL32, "REAL64": dt.REAL64, "VISIBLE_STRING": dt.VISIBLE_STRING, "UNICODE_STRING": dt.UNICODE_STRING, "OCTET_STRING": dt.OCTET_STRING, "DOMAIN": dt.DOMAIN}
def mkod():
    od = ObjectDictionary(); idx = 0x2000; m = {}
    for n, t in list(INT.items()) + list(OTHER.items()):
        v = ODVariable(n, idx); v.data_type = t; od.add_object(v); m[n] = idx; idx += 1
    rec = ODRecord("Rec", 0x3000)
    for s, (n, t, acc) in enumerate([("n", dt.UNSIGNED8, "ro"), ("Member", dt.INTEGER16, "rw"), ("RO", dt.UNSIGNED16, "ro"), ("WO", dt.UNSIGNED16, "wo"), ("CONST", dt.UNSIGNED16, "const"), ("NOVAL", dt.UNSIGNED16, "rw")]):
        v = ODVariable(n, 0x3000, s); v.data_type = t; v.access_type = acc; v.default = None if n == "NOVAL" else 1; rec.add_member(v)
    od.add_object(rec)
    arr = ODArray("Arr", 0x3001)
    for s in range(3):
        v = ODVariable("a%d" % s, 0x3001, s); v.data_type = dt.UNSIGNED8 if s == 0 else dt.INTEGER32; v.default = 2 if s == 0 else 0; arr.add_member(v)
    od.add_object(arr)
    v = ODVariable("hb", 0x1017); v.data_type = dt.UNSIGNED16; v.default = 0; od.add_object(v)
    return od, m
OD, IDX = mkod()
class Pair:
    def __init__(s):
        s.a = canopen.Network(); s.b = canopen.Network(); s.frames = []
        s.a.send_message = lambda cid, d, remote=False: (s.frames.append(("c", bytes(d))), s.b.notify(cid, bytearray(d), 0.0))
        s.b.send_message = lambda cid, d, remote=False: (s.frames.append(("s", bytes(d))), s.a.notify(cid, bytearray(d), 0.0))
        s.remote = s.a.add_node(5, OD); s.local = s.b.create_node(5, OD)
P = Pair()
problems = collections.Counter(); ex = {}
def note(k, d): problems[k] += 1; ex.setdefault(k, d)
def rng(n):
    w = int(n.lstrip("INTEGRUSD")); return (-(1 << (w - 1)), (1 << (w - 1)) - 1) if n.startswith("INT") else (0, (1 << w) - 1)
cnt = 0
for n, t in INT.items():
    lo, hi = rng(n); w = int(n.lstrip("INTEGRUSD"))
    vals = set(range(lo, hi + 1)) if w <= 16 else set()
    if w > 16:
        for k in range(w + 1):
            for d in (-2, -1, 0, 1, 2):
                for sgn in (1, -1):
                    v = sgn * (1 << k) + d
                    if lo <= v <= hi: vals.add(v)
        vals |= {lo, lo + 1, hi, hi - 1}
    for v in sorted(vals):
        cnt += 1
        try:
            P.remote.sdo[n].raw = v
            r1 = P.remote.sdo[IDX[n]].raw; r2 = P.local.sdo[n].raw; st = P.local.data_store[IDX[n]][0]
        except Exception as e:
            note("int %s raises %s" % (n, type(e).__name__), (v, str(e)[:50])); continue
        if r1 != v or r2 != v or st != (v % (1 << w)).to_bytes(w // 8, "little"): note("int %s mismatch" % n, (v, r1, r2, st.hex()))
for v in (True, False):
    P.remote.sdo["BOOLEAN"].raw = v
    if P.remote.sdo["BOOLEAN"].raw != v or P.local.data_store[IDX["BOOLEAN"]][0] != bytes([v]): note("bool", v)
for n, fmt in (("REAL32", "<f"), ("REAL64", "<d")):
    for v in (0.0, -0.0, 1.5, -2.25, math.inf, -math.inf, 1e-45 if n == "REAL32" else 5e-324, 3.4028234663852886e38 if n == "REAL32" else 1.7976931348623157e308):
        P.remote.sdo[n].raw = v; r = P.remote.sdo[n].raw
        if struct.pack(fmt, r) != struct.pack(fmt, v) or P.local.data_store[IDX[n]][0] != struct.pack(fmt, v): note("real " + n, (v, r))
for L in range(0, 41):
    s = "".join(chr(0x21 + (i * 7) % 90) for i in range(L)); b = bytes(((i * 37 + 11) % 255) + 1 for i in range(L))
    for n, v, enc in (("VISIBLE_STRING", s, s.encode("ascii")), ("UNICODE_STRING", s, s.encode("utf-16-le")), ("OCTET_STRING", b, b), ("DOMAIN", b, b)):
        try:
            P.remote.sdo[n].raw = v; r1 = P.remote.sdo[n].raw; r2 = P.local.sdo[n].raw; st = P.local.data_store[IDX[n]][0]
        except Exception as e:
            note("%s len %d raises %s" % (n, L, type(e).__name__), str(e)[:60]); continue
        if r1 != v or r2 != v or st != enc: note("%s len %d mismatch" % (n, L), (v, r1, r2, st))
P.remote.sdo["Rec.Member"].raw = -7
if P.remote.sdo["Rec"]["Member"].raw != -7 or P.remote.sdo[0x3000][1].raw != -7 or P.local.sdo["Rec.Member"].raw != -7: note("record member access", None)
P.remote.sdo["Arr"][2].raw = 123456
if P.remote.sdo[0x3001][2].raw != 123456: note("array member", None)
print("C03a round trips", cnt)
for k, n in sorted(problems.items()): print(n, k, ex[k])
# ---------- C06 refusals
problems.clear(); ex.clear()
def expect_abort(desc, fn, code, mux, store_key=None):
    before = {k: dict(v) for k, v in P.local.data_store.items()}
    P.frames.clear()
    try:
        fn(); note(desc + ": no error", None); return
    except canopen.SdoAbortedError as e:
        if e.code != code: note(desc + ": code", (hex(e.code), hex(code)))
    except Exception as e:
        note(desc + ": raised %s" % type(e).__name__, str(e)[:60]); return
    ab = [f for who, f in P.frames if who == "s" and f[0] == 0x80]
    if len(ab) != 1: note(desc + ": abort frames %d" % len(ab), None)
    elif ab[0][1:4] != struct.pack("<HB", *mux): note(desc + ": abort mux", (ab[0].hex(), mux))
    if {k: dict(v) for k, v in P.local.data_store.items()} != before: note(desc + ": store changed", None)
cb_log = []
P.local.add_write_callback(lambda **kw: cb_log.append((kw["index"], kw["subindex"], bytes(kw["data"]))))
# prime previous transfer on another mux so a stale multiplexer would show
def prime(): P.remote.sdo.upload(0x3001, 0)
for seg in (False, True):
    prime(); expect_abort("write ro seg=%s" % seg, lambda: P.remote.sdo.download(0x3000, 2, b"\x01\x00", force_segment=seg), 0x06010002, (0x3000, 2))
    prime(); expect_abort("write const seg=%s" % seg, lambda: P.remote.sdo.download(0x3000, 4, b"\x01\x00", force_segment=seg), 0x06010002, (0x3000, 4))
    prime(); expect_abort("write missing idx seg=%s" % seg, lambda: P.remote.sdo.download(0x4000, 0, b"\x01", force_segment=seg), 0x06020000, (0x4000, 0))
    prime(); expect_abort("write missing sub seg=%s" % seg, lambda: P.remote.sdo.download(0x3000, 9, b"\x01", force_segment=seg), 0x06090011, (0x3000, 9))
    for n, t in INT.items():
        w = int(n.lstrip("INTEGRUSD")) // 8
        for L in range(0, 10):
            if L == w: continue
            if L == 0 and not seg: continue
            prime(); expect_abort("wrong length %s L=%d seg=%s" % ("numeric", L, seg), lambda: P.remote.sdo.download(IDX[n], 0, bytes(L), force_segment=seg), 0x06070010, (IDX[n], 0))
prime(); expect_abort("read wo", lambda: P.remote.sdo.upload(0x3000, 3), 0x06010001, (0x3000, 3))
prime(); expect_abort("read missing idx", lambda: P.remote.sdo.upload(0x4000, 0), 0x06020000, (0x4000, 0))
prime(); expect_abort("read missing sub rec", lambda: P.remote.sdo.upload(0x3000, 9), 0x06090011, (0x3000, 9))
prime(); expect_abort("read no value", lambda: P.remote.sdo.upload(0x3000, 5), 0x060A0023, (0x3000, 5))
def blockdl():
    with P.remote.sdo.open(0x2016, 0, "wb", size=9, block_transfer=True) as fp: fp.write(b"123456789")
prime(); expect_abort("block download", blockdl, 0x05040001, (0x2016, 0))
print("write callbacks seen during refusals:", cb_log)
print("---- C06")
for k, n in sorted(problems.items()): print(n, k, ex[k])
