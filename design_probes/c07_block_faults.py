"""DESIGN PROBE (throw-away): disturbances on server->client frames of block download / block upload
(reference servers borrowed from the c12/c13 probes)."""
import sys, struct, collections, logging
sys.path.insert(0, "/repo")
src = open("c12_block_download.py").read().split("od = ObjectDictionary()")[0]
exec(src)                      # BlkSrv, VQ patching, crc16, CLK ...
src2 = open("c13_block_upload_faults.py").read()
src2 = src2[src2.index("class UpSrv"):src2.index("od=ObjectDictionary()")]
exec(src2)                     # UpSrv
import canopen
from canopen.objectdictionary import ObjectDictionary
logging.disable(logging.CRITICAL)
od = ObjectDictionary()
def pat(n): return bytes(((i * 37 + 11) % 255) + 1 for i in range(n))
def run(kind, n, step, fault):
    net = canopen.Network(); p = pat(n)
    srv = BlkSrv((3,), True) if kind == "bdl" else UpSrv(p, True)
    cnt = [0]; cframes = []
    def send(can_id, d, remote=False):
        cframes.append(bytes(d))
        for r in (srv.on(d) or []):
            r = bytes(r)
            is_seg = kind == "bul" and srv.st in ("wait_ack",) and not (r[0] >> 5 == 6 and r[0] & 3 in (0, 1) and len(cframes) <= 1)
            cnt[0] += 1
            if cnt[0] == step:
                if fault == "lost": continue
                if fault == "abort": r = bytes([0x80]) + bytes(3) + struct.pack("<L", 0x08000000)
                if fault == "scs": r = bytes([(r[0] + 0x20) & 0xFF]) + r[1:]
                if fault == "dup": net.notify(0x585, bytearray(r), 0.0)
            net.notify(0x585, bytearray(r), 0.0)
    net.send_message = send
    node = net.add_node(5, od)
    try:
        if kind == "bdl":
            with node.sdo.open(0x2000, 0, "wb", size=n, block_transfer=True) as fp: fp.write(p)
            res = "ok" if srv.store.get(b"\x00\x20\x00") == p else "WRONG(not committed)"
        else:
            with node.sdo.open(0x2000, 0, "rb", block_transfer=True) as fp: got = fp.read()
            res = "ok" if got == p else "WRONG(data)"
    except (canopen.SdoCommunicationError, canopen.SdoAbortedError) as e: res = "SdoError"
    except AssertionError as e: res = "server-assert"
    except Exception as e: res = "EXC " + type(e).__name__
    timeout_abort = any(f[0] == 0x80 and f[4:] == struct.pack("<L", 0x05040000) for f in cframes)
    return res, timeout_abort, cnt[0]
out = collections.Counter(); ex = {}
for kind in ("bdl", "bul"):
    for n in (5, 20, 30):
        _, _, total = run(kind, n, None, None)
        for step in range(1, total + 1):
            for fault in ("lost", "abort", "scs", "dup"):
                res, ta, _ = run(kind, n, step, fault)
                k = (kind, fault, res, "timeout-abort" if ta else "no-timeout-abort")
                out[k] += 1; ex.setdefault(k, (n, step, total))
for k, v in sorted(out.items()): print(v, k, ex[k])
