import canopen, struct
from canopen.objectdictionary import ODVariable, ObjectDictionary, datatypes as dt
import logging; logging.disable(logging.CRITICAL)
od=ObjectDictionary()
v=ODVariable("u32",0x2000); v.data_type=dt.UNSIGNED32; v.default=0
v.add_bit_definition("FIELD",[4,5,6]); v.add_bit_definition("BIT",[31]); v.add_value_description(0,"zero"); v.add_value_description(5,"five")
od.add_object(v)
w=ODVariable("i16",0x2001); w.data_type=dt.INTEGER16; w.default=0; w.factor=0.1; od.add_object(w)
v=ODVariable("hb",0x1017); v.data_type=dt.UNSIGNED16; v.default=0; od.add_object(v)
node=canopen.LocalNode(5,od)
x=node.sdo[0x2000]
def t(desc,f):
    try: print(desc, f())
    except Exception as e: print(desc,"ERR",type(e).__name__,e)
x.raw=0
def s1(): x.bits[3]=1; return hex(x.raw)
t("bits[3]=1",s1)
def s2(): x.bits[[4,5,6]]=5; return hex(x.raw)
t("bits[[4,5,6]]=5",s2)
def s3(): x.bits["FIELD"]=2; return hex(x.raw), x.bits["FIELD"]
t("bits[FIELD]=2",s3)
def s4(): x.bits[8:12]=0xF; return hex(x.raw)
t("bits[8:12]=0xF",s4)
def s5(): x.bits[8:12:1]=0xF; return hex(x.raw), x.bits[8:12:1]
t("bits[8:12:1]=0xF",s5)
t("bits[(4,5,6)] tuple", lambda: x.bits[(4,5,6)])
def s6(): x.bits["BIT"]=1; return hex(x.raw), x.bits[31]
t("bits[BIT]=1",s6)
x.raw=5; t("desc",lambda: x.desc)
def s7(): x.desc="zero"; return x.raw
t("desc=zero",s7)
y=node.sdo[0x2001]
for req in (1.0, 1.04, 1.05, 1.06, -3276.8, 3276.7, 0.25, 0.35):
    def s8():
        y.phys=req; return req, y.raw, y.phys
    t("phys",s8)
w.factor=-0.25
for req in (1.0, -1.1, 0.125):
    def s9():
        y.phys=req; return req, y.raw, y.phys
    t("phys f=-0.25",s9)
