"""DESIGN PROBE (throw-away): depth-bounded BFS over request histories of the real SdoServer.
Invariants: no exception out of Network.notify; exactly one 8-byte response per non-abort request;
data_store only changed by properly sequenced downloads (reference store); probe transfers work from every state."""
import sys, struct, collections, logging
sys.path.insert(0, "/repo")
import canopen
from canopen.objectdictionary import ODVariable, ObjectDictionary, datatypes as dt
logging.disable(logging.CRITICAL)

def mkod():
    od = ObjectDictionary()
    def var(name, idx, t, default=None, access="rw"):
        v = ODVariable(name, idx); v.data_type = t; v.default = default; v.access_type = access; od.add_object(v)
    var("small", 0x2000, dt.UNSIGNED16, 0x1234)
    var("four", 0x2001, dt.UNSIGNED32, 0x01020304)
    var("str15", 0x2002, dt.VISIBLE_STRING, "ABCDEFGHIJKLMNO")
    var("empty", 0x2003, dt.OCTET_STRING, b"")
    var("wo", 0x2004, dt.UNSIGNED8, 1, "wo")
    var("ro", 0x2005, dt.UNSIGNED8, 1, "ro")
    var("noval", 0x2006, dt.UNSIGNED8, None)
    var("dom", 0x2007, dt.DOMAIN, None)
    var("hb", 0x1017, dt.UNSIGNED16, 0)
    return od
OD = mkod()
def mux(i, s=0): return struct.pack("<HB", i, s)
EVENTS = collections.OrderedDict()
for name, idx in (("small",0x2000),("four",0x2001),("str15",0x2002),("empty",0x2003),("wo",0x2004),("noval",0x2006),("missing",0x2FFF)):
    EVENTS["ul_init_"+name] = bytes([0x40])+mux(idx)+bytes(4)
EVENTS["ul_seg_t0"] = bytes([0x60])+bytes(7)
EVENTS["ul_seg_t1"] = bytes([0x70])+bytes(7)
EVENTS["dl_exp_small_ok"] = bytes([0x2B])+mux(0x2000)+b"\xAA\xBB\0\0"
EVENTS["dl_exp_small_badlen"] = bytes([0x2F])+mux(0x2000)+b"\xAA\0\0\0"
EVENTS["dl_exp_ro"] = bytes([0x2F])+mux(0x2005)+b"\x09\0\0\0"
EVENTS["dl_seg_init_dom_size9"] = bytes([0x21])+mux(0x2007)+struct.pack("<L",9)
EVENTS["dl_seg_init_dom_nosize"] = bytes([0x20])+mux(0x2007)+bytes(4)
EVENTS["dl_seg_t0_7"] = bytes([0x00])+b"1234567"
EVENTS["dl_seg_t1_2_last"] = bytes([0x10|(5<<1)|1])+b"89"+bytes(5)
EVENTS["dl_seg_t0_0_last"] = bytes([0x00|(7<<1)|1])+bytes(7)
EVENTS["dl_seg_t1_7"] = bytes([0x10])+b"abcdefg"
EVENTS["blk_ul_init"] = bytes([0xA4])+mux(0x2002)+bytes([127,0,0,0])
EVENTS["blk_dl_init"] = bytes([0xC6])+mux(0x2007)+struct.pack("<L",9)
EVENTS["abort"] = bytes([0x80])+mux(0x2000)+struct.pack("<L",0x08000000)
EVENTS["ccs7"] = bytes([0xE0])+bytes(7)
EVENTS["short1_ul"] = bytes([0x40])
EVENTS["short3_dl"] = bytes([0x23,0x00,0x20])
EVENTS["short1_seg"] = bytes([0x00])

class Bus:
    channel_info = "probe"
    def __init__(s): s.sent = []
    def send(s, m): s.sent.append(bytes(m.data))
    def shutdown(s): pass

def build(hist):
    net = canopen.Network(Bus()); node = canopen.LocalNode(5, OD); net.add_node(node)
    obs = []
    for ev in hist:
        obs.append(step(net, node, ev))
    return net, node, obs
def step(net, node, ev):
    net.bus.sent.clear()
    try:
        net.notify(0x605, bytearray(EVENTS[ev]), 0.0); exc = None
    except Exception as e:
        exc = type(e).__name__
    return exc, list(net.bus.sent)
def canon(node):
    s = node.sdo
    return (bytes(s._buffer) if s._buffer is not None else None, s._toggle, s._index, s._subindex,
            tuple(sorted((k, tuple(sorted(v.items()))) for k, v in node.data_store.items())))

problems = collections.Counter(); examples = {}
def note(kind, hist, detail):
    problems[kind] += 1
    if kind not in examples or len(hist) < len(examples[kind][0]): examples[kind] = (hist, detail)

# reference store: commits only properly sequenced downloads
def ref_store(hist):
    store = {}; st = None
    for ev in hist:
        f = EVENTS[ev]
        if len(f) < 8:
            continue   # malformed: a conformant server aborts and (we allow) keeps or drops transfer state -> treat as no commit
        ccs = f[0] >> 5
        if ccs == 1:
            idx = struct.unpack_from("<H", f, 1)[0]
            if f[0] & 2:
                n = 4-((f[0]>>2)&3) if f[0]&1 else 4
                if idx == 0x2000 and n == 2: store[idx] = f[4:4+n]
                st = None
            else:
                st = dict(idx=idx, buf=b"", t=0)
        elif ccs == 0:
            if st is None: continue
            t = (f[0]>>4)&1
            if t != st["t"]: st = None; continue
            n = (f[0]>>1)&7; st["buf"] += f[1:8-n]; st["t"] ^= 1
            if f[0] & 1:
                store[st["idx"]] = st["buf"]; st = None
        elif ccs in (2, 5):   # upload initiate / block upload initiate end a download in progress
            st = None
        elif ccs == 4:
            st = None
        else:
            st = None
    return store

seen = {}; frontier = collections.deque([()]); DEPTH = int(sys.argv[1]) if len(sys.argv) > 1 else 3
ntrans = 0
while frontier:
    hist = frontier.popleft()
    if len(hist) >= DEPTH: continue
    for ev in EVENTS:
        h2 = hist + (ev,)
        net, node, obs = build(h2); ntrans += 1
        exc, sent = obs[-1]
        f = EVENTS[ev]
        if exc: note("exception:"+exc, h2, sent)
        if f[0] >> 5 != 4:
            if len(sent) != 1: note("responses!=1 (%d)" % len(sent), h2, [x.hex() for x in sent])
            elif len(sent[0]) != 8: note("response len", h2, sent[0].hex())
        else:
            if sent: note("response to abort", h2, [x.hex() for x in sent])
        rs = ref_store(h2)
        real = {k: v.get(0) for k, v in node.data_store.items()}
        if not exc and real != rs: note("store differs", h2, (real, rs))
        if exc: continue
        k = canon(node)
        if k not in seen:
            seen[k] = h2; frontier.append(h2)
print("depth", DEPTH, "states", len(seen), "transitions", ntrans)
for kind, n in problems.most_common():
    print(n, kind, "e.g.", examples[kind])
