"""DESIGN PROBE (throw-away): candidate property-breaking mutants; for each, does the pinned baseline suite still pass?
Usage: /venv/bin/python mutant_candidates.py [jobs]   (works on scratch copies under /var/tmp, removed afterwards)"""
import os, shutil, subprocess, sys, tempfile, concurrent.futures as cf
M = [  # (id, property, file, old, new)
 ("c01_close_toggle", "C01", "canopen/sdo/client.py", "            command |= self._toggle\n            # No data in this message", "            # No data in this message"),
 ("c01_last_flag_gt", "C01", "canopen/sdo/client.py", "self.pos + bytes_sent >= self.size:", "self.pos + bytes_sent > self.size:"),
 ("c01_exp_no_pad", "C01", "canopen/sdo/client.py", "request = self._exp_header + data.ljust(4, b\"\\x00\")", "request = (self._exp_header + data).ljust(8, b\"\\xff\")"),
 ("c01_upload_seg_len", "C01", "canopen/sdo/client.py", "length = 7 - ((res_command >> 1) & 0x7)", "length = 7 - ((res_command >> 1) & 0x3)"),
 ("c02_no_toggle_reset_upload", "C02", "canopen/sdo/server.py", "            self._buffer = bytearray(data)\n            self._toggle = 0", "            self._buffer = bytearray(data)"),
 ("c02_precedence", "C02", "canopen/node/local.py", "        try:\n            return self.data_store[index][subindex]\n        except KeyError:\n            # Try ParameterValue in EDS\n            if obj.value is not None:\n                return obj.encode_raw(obj.value)",
  "        if obj.value is not None:\n            return obj.encode_raw(obj.value)\n        try:\n            return self.data_store[index][subindex]\n        except KeyError:\n            # Try ParameterValue in EDS\n            if obj.value is not None:\n                return obj.encode_raw(obj.value)"),
 ("c02_last_seg_late", "C02", "canopen/sdo/server.py", "        if not self._buffer:\n            # Nothing left in buffer\n            res_command |= NO_MORE_DATA", "        if not self._buffer and size < 7:\n            # Nothing left in buffer\n            res_command |= NO_MORE_DATA"),
 ("c03_no_copy", "C03", "canopen/sdo/client.py", "self.responses.put(bytes(data))", "self.responses.put(data)"),
 ("c03_no_flush", "C03/C07", "canopen/sdo/client.py", "        if not self.responses.empty():\n            # logger.warning(\"There were unexpected messages in the queue\")\n            self.responses = queue.Queue()\n", ""),
 ("c04_sign_mask", "C04", "canopen/objectdictionary/datatypes.py", "        mask = 0x80\n        neg", "        mask = 0xC0\n        neg"),
 ("c04_u40_fmt", "C04", "canopen/objectdictionary/datatypes.py", "        elif width <= 32:\n            fmt = \"<L\"\n        else:\n            fmt = \"<Q\"", "        elif width <= 40:\n            fmt = \"<L\"\n        else:\n            fmt = \"<Q\""),
 ("c05_sign_test", "C05", "canopen/pdo/base.py", "(1 << (self.length - 1)) < data:", "(1 << (self.length - 1)) << 1 < data:"),
 ("c05_mask_len", "C05", "canopen/pdo/base.py", "data = (data >> bit_offset) & ((1 << self.length) - 1)", "data = (data >> bit_offset) & ((1 << len(self.od)) - 1)"),
 ("c05_size_floor", "C05", "canopen/pdo/base.py", "self.data = bytearray(int(math.ceil(self.length / 8.0)))", "self.data = bytearray(max(1, self.length // 8))"),
 ("c06_len_after_cb", "C06", "canopen/node/local.py", "        # Check length matches type (length of od variable is in bits)\n        if obj.data_type in objectdictionary.NUMBER_TYPES and (\n            not 8 * len(data) == len(obj)\n        ):\n            raise SdoAbortedError(0x06070010)\n\n        # Try callbacks\n        for callback in self._write_callbacks:\n            callback(index=index, subindex=subindex, od=obj, data=data)\n",
  "        # Try callbacks\n        for callback in self._write_callbacks:\n            callback(index=index, subindex=subindex, od=obj, data=data)\n\n        # Check length matches type (length of od variable is in bits)\n        if obj.data_type in objectdictionary.NUMBER_TYPES and (\n            not 8 * len(data) == len(obj)\n        ):\n            raise SdoAbortedError(0x06070010)\n"),
 ("c06_seg_no_writable_check", "C06", "canopen/sdo/server.py", "                                self._buffer,\n                                check_writable=True)", "                                self._buffer,\n                                check_writable=False)"),
 ("c06_wo_code", "C06", "canopen/node/local.py", "raise SdoAbortedError(0x06010001)", "raise SdoAbortedError(0x06010000)"),
 ("c07_no_toggle_check", "C07", "canopen/sdo/client.py", "        if res_command & TOGGLE_BIT != self._toggle:\n            raise SdoCommunicationError(\"Toggle bit mismatch\")\n", ""),
 ("c07_no_mux_check", "C07", "canopen/sdo/client.py", "        if res_index != index or res_subindex != subindex:\n            raise SdoCommunicationError(\n                f\"Node returned a value for {pretty_index(res_index, res_subindex)} instead, \"\n                \"maybe there is another SDO client communicating \"\n                \"on the same SDO channel?\")\n\n        self.exp_data = None", "        self.exp_data = None"),
 ("c07_no_timeout_abort", "C07", "canopen/sdo/client.py", "                    self.abort(0x5040000)\n                    raise", "                    raise"),
 ("c08_sub_case", "C08", "canopen/objectdictionary/eds.py", "[S|s]ub([0-9A-Fa-f]+)$", "sub([0-9A-Fa-f]+)$"),
 ("c08_access_case", "C08", "canopen/objectdictionary/eds.py", "eds.get(section, \"AccessType\").lower()", "eds.get(section, \"AccessType\")"),
 ("c08_signed_limit", "C08", "canopen/objectdictionary/eds.py", "    if number > max_value:\n        return number - (1 << bit_length)", "    if number > max_value + 1:\n        return number - (1 << bit_length)"),
 ("c09_count_after", "C09", "canopen/pdo/base.py", "        try:\n            self.map_array[0].raw = 0\n        except SdoAbortedError:", "        try:\n            pass\n        except SdoAbortedError:"),
 ("c09_no_invalidate_when_disabled", "C09", "canopen/pdo/base.py", "        self.com_record[1].raw = self.cob_id | PDO_NOT_VALID | (RTR_NOT_ALLOWED if not self.rtr_allowed else 0x0)\n        if self.trans_type", "        if not self.enabled:\n            self.com_record[1].raw = self.cob_id | PDO_NOT_VALID | (RTR_NOT_ALLOWED if not self.rtr_allowed else 0x0)\n        if self.trans_type"),
 ("c09_len_mask", "C09", "canopen/pdo/base.py", "size = value & 0x7F\n            if getattr", "size = value & 0x3F\n            if getattr"),
 ("c10_dup_sub", "C10", "canopen/network.py", "        if callback not in self.subscribers[can_id]:\n            self.subscribers[can_id].append(callback)", "        self.subscribers[can_id].append(callback)"),
 ("c10_emcy_unsub", "C10", "canopen/node/remote.py", "        self.network.unsubscribe(0x80 + self.id, self.emcy.on_emcy)\n", ""),
 ("c10_ext_flag", "C10", "canopen/network.py", "        msg = can.Message(is_extended_id=can_id > 0x7FF,\n                          arbitration_id=can_id,\n                          data=data,\n                          is_remote_frame=remote)", "        msg = can.Message(is_extended_id=can_id >= 0x7FF,\n                          arbitration_id=can_id,\n                          data=data,\n                          is_remote_frame=remote)"),
 ("c11_table_128", "C11", "canopen/nmt.py", "    128: 127,\n    129: 0,", "    128: 4,\n    129: 0,"),
 ("c11_no_broadcast", "C11", "canopen/nmt.py", "if node_id in (self.id, 0):", "if node_id == self.id:"),
 ("c11_toggle_mask", "C11", "canopen/nmt.py", "            new_state &= 0x7F\n", ""),
 ("c12_crc_retransmit", "C12", "canopen/sdo/client.py", "if self.crc_supported and not self._retransmitting:", "if self.crc_supported:"),
 ("c12_pos_rewind", "C12", "canopen/sdo/client.py", "self.pos = self.pos - (len(block) * 7)", "self.pos = self.pos - (len(block) * 8)"),
 ("c12_unused_count", "C12", "canopen/sdo/client.py", "command |= (7 - self._last_bytes_sent) << 2", "command |= ((7 - self._last_bytes_sent) & 0x3) << 2"),
 ("c13_blk_full", "C13", "canopen/sdo/client.py", "if self._ackseq >= self.blksize or res_command & NO_MORE_BLOCKS:", "if self._ackseq > self.blksize or res_command & NO_MORE_BLOCKS:"),
 ("c13_no_crc_check", "C13", "canopen/sdo/client.py", "if self._server_crc != self._crc.final():", "if False:"),
 ("c13_trim", "C13", "canopen/sdo/client.py", "            data = response[1:8 - n]\n            self._done = True", "            data = response[1:8 - n] if n < 6 else response[1:2]\n            self._done = True"),
 ("c14_revert_abs", "C14", "canopen/objectdictionary/eds.py", "        return f\"0x{value:02X}\"", "        return f\"0x{abs(value):02X}\""),
 ("c14_subnumber_dec", "C14", "canopen/objectdictionary/eds.py", "eds.set(section, \"SubNumber\", f\"0x{len(var.subindices):X}\")", "eds.set(section, \"SubNumber\", f\"{len(var.subindices) - 1}\")"),
 ("c14_no_highlimit", "C14", "canopen/objectdictionary/eds.py", "        if getattr(var, 'max', None) is not None:\n            eds.set(section, \"HighLimit\", var.max)", "        if getattr(var, 'max', None):\n            eds.set(section, \"HighLimit\", var.max)"),
 ("c15_reset_outside_lock", "C15", "canopen/pdo/base.py", "        with self.receive_condition:\n            self.is_received = False\n            self.receive_condition.wait(timeout)", "        self.is_received = False\n        with self.receive_condition:\n            self.receive_condition.wait(timeout)"),
 ("c15_no_id_test", "C15", "canopen/pdo/base.py", "if can_id == self.cob_id and not is_transmitting:", "if not is_transmitting:"),
 ("c15_rtr_rule", "C15", "canopen/pdo/base.py", "if self.enabled and self.rtr_allowed:", "if self.enabled or self.rtr_allowed:"),
 ("c16_reset_test", "C16", "canopen/emcy.py", "if code & 0xFF00 == 0:", "if code == 0:"),
 ("c16_active_order", "C16", "canopen/emcy.py", "            if code & 0xFF00 == 0:\n                # Error reset\n                self.active = []\n            else:\n                self.active.append(entry)", "            self.active.append(entry)\n            if code & 0xFF00 == 0:\n                # Error reset\n                self.active = []"),
 ("c16_desc_mask", "C16", "canopen/emcy.py", "(0x5000, 0xFF00, \"Device Hardware\")", "(0x5000, 0xF000, \"Device Hardware\")"),
 ("c17_pdo_start_no_stop", "C17", "canopen/pdo/base.py", "        # overwrite the reference and can lose our handle to shut it down\n        self.stop()\n", "        # overwrite the reference and can lose our handle to shut it down\n"),
 ("c17_update_no_restart", "C17", "canopen/network.py", "        elif new_data != old_data:\n            # Stop and start (will mess up period unfortunately)\n            self._task.stop()\n            self._start()", "        elif new_data != old_data:\n            pass"),
 ("c17_hb_stop_keep", "C17", "canopen/nmt.py", "            self._send_task.stop()\n            self._send_task = None", "            self._send_task = None"),
 ("c18_bit_off_by_one", "C18", "canopen/lss.py", "                        lss_id[lss_sub] |= 1<<lss_bit_check", "                        lss_id[lss_sub] |= 1<<(lss_bit_check & 0x1E)"),
 ("c18_big_endian", "C18", "canopen/lss.py", "struct.pack('<BIBBB', CS_FAST_SCAN", "struct.pack('>BIBBB', CS_FAST_SCAN"),
 ("c18_no_error_check", "C18", "canopen/lss.py", "        if error_code != ERROR_NONE:", "        if error_code == ERROR_VENDOR_SPECIFIC:"),
 ("c19_table_swap", "C19", "canopen/profiles/p402.py", "('SWITCHED ON', 'READY TO SWITCH ON'):            CW_SHUTDOWN,", "('SWITCHED ON', 'READY TO SWITCH ON'):            CW_SWITCH_ON,"),
 ("c19_qsa_path", "C19", "canopen/profiles/p402.py", "('FAULT', 'NOT READY TO SWITCH ON', 'QUICK STOP ACTIVE'):       'SWITCH ON DISABLED',", "('FAULT', 'NOT READY TO SWITCH ON'):       'SWITCH ON DISABLED',\n        ('QUICK STOP ACTIVE',):       'OPERATION ENABLED',"),
 ("c19_mask", "C19", "canopen/profiles/p402.py", "'SWITCHED ON':                  (0x6F, 0x23),", "'SWITCHED ON':                  (0x4F, 0x03),"),
 ("c20_min_bits", "C20", "canopen/objectdictionary/__init__.py", "        temp |= bit_value << min(bits)\n", "        temp |= bit_value << bits[0]\n"),
 ("c20_round", "C20", "canopen/objectdictionary/__init__.py", "            value = int(round(value))", "            value = int(value)"),
 ("c20_desc_first", "C20", "canopen/objectdictionary/__init__.py", "                if description == desc:\n                    return value", "                if description.startswith(desc):\n                    return value"),
]
# second batch (property coverage gaps of the first batch)
M += [
 ("c01_size0_no_flag", "C01", "canopen/sdo/client.py", "            if size is not None:\n                command |= SIZE_SPECIFIED\n                struct.pack_into(\"<L\", request, 4, size)\n            SDO_STRUCT.pack_into(request, 0, command, index, subindex)\n            response = sdo_client.request_response(request)\n            res_command, = struct.unpack_from(\"B\", response)\n            if res_command != RESPONSE_DOWNLOAD:",
  "            if size:\n                command |= SIZE_SPECIFIED\n                struct.pack_into(\"<L\", request, 4, size)\n            SDO_STRUCT.pack_into(request, 0, command, index, subindex)\n            response = sdo_client.request_response(request)\n            res_command, = struct.unpack_from(\"B\", response)\n            if res_command != RESPONSE_DOWNLOAD:"),
 ("c01_unknown_size_pad", "C01", "canopen/sdo/client.py", "            request[0] = command\n            request[1:bytes_sent + 1] = b[0:bytes_sent]", "            request[0] = command\n            request[1:bytes_sent + 1] = b[0:bytes_sent]\n            if bytes_sent < 7 and self.size is None: request[7] = 0xFF"),
 ("c01_upload_trunc_le", "C01", "canopen/sdo/client.py", "if response_size is None or var_size < response_size:", "if response_size is None or var_size <= response_size + 0 and var_size > 1:"),
 ("c01_seg_upload_nosize_done", "C01", "canopen/sdo/client.py", "        if res_command & NO_MORE_DATA:\n            self._done = True\n        self._toggle ^= TOGGLE_BIT", "        if res_command & NO_MORE_DATA or (self.size is None and length < 7):\n            self._done = True\n        self._toggle ^= TOGGLE_BIT"),
 ("c08_pdomapping_str", "C08", "canopen/objectdictionary/eds.py", "var.pdo_mappable = bool(int(eds.get(section, \"PDOMapping\", fallback=\"0\"), 0))", "var.pdo_mappable = eds.get(section, \"PDOMapping\", fallback=\"0\") == \"1\""),
 ("c08_nodeid_base10", "C08", "canopen/objectdictionary/eds.py", "node_id = int(val, base=0)", "node_id = int(val, base=10)"),
 ("c08_nodeid_suffix_form", "C08", "canopen/objectdictionary/eds.py", "re.sub(r'\\+?\\$NODEID\\+?', '', value)", "re.sub(r'\\$NODEID\\+', '', value)"),
 ("c08_highlimit_dec", "C08", "canopen/objectdictionary/eds.py", "                var.max = int(max_string, 0)", "                var.max = int(max_string)"),
 ("c08_compact_names_off", "C08", "canopen/objectdictionary/eds.py", "            for subindex in range(1, num_of_entries + 1):", "            for subindex in range(2, num_of_entries + 1):"),
 ("c08_paramvalue_default", "C08", "canopen/objectdictionary/eds.py", "            var.value = _convert_variable(node_id, var.data_type, eds.get(section, \"ParameterValue\"))", "            var.value = _convert_variable(None, var.data_type, eds.get(section, \"ParameterValue\"))"),
 ("c11_table_130", "C11", "canopen/nmt.py", "    130: 0\n}", "    130: 127\n}"),
 ("c11_invalid_name_sends", "C11", "canopen/nmt.py", "        else:\n            raise ValueError(\"'%s' is an invalid state. Must be one of %s.\" %\n                             (new_state, \", \".join(NMT_COMMANDS)))", "        else:\n            self.send_command(0)\n            raise ValueError(\"'%s' is an invalid state. Must be one of %s.\" %\n                             (new_state, \", \".join(NMT_COMMANDS)))"),
 ("c11_slave_ignores_in_stopped", "C11", "canopen/nmt.py", "            if cmd in COMMAND_TO_STATE:\n                new_state = COMMAND_TO_STATE[cmd]\n                if new_state != self._state:", "            if cmd in COMMAND_TO_STATE and not (self._state == 4 and cmd == 1):\n                new_state = COMMAND_TO_STATE[cmd]\n                if new_state != self._state:"),
 ("c11_bootup_state", "C11", "canopen/nmt.py", "                # Boot-up, will go to PRE-OPERATIONAL automatically\n                self._state = 127", "                # Boot-up, will go to PRE-OPERATIONAL automatically\n                self._state = 127 if self._state != 5 else 5"),
 ("c05_aligned_write_len", "C05", "canopen/pdo/base.py", "            self.pdo_parent.data[byte_offset:byte_offset + len(data)] = data\n", "            self.pdo_parent.data[byte_offset:byte_offset + max(len(data), 2)] = data.ljust(2, b\"\\x00\")\n"),
 ("c05_bool_bit_other", "C05", "canopen/pdo/base.py", "            shifted = (((1 << self.length) - 1) << bit_offset) & ((1 << len(self.od)) - 1)", "            shifted = (((1 << max(self.length, 2)) - 1) << bit_offset) & ((1 << len(self.od)) - 1) if bit_offset in (2, 3) else (((1 << self.length) - 1) << bit_offset) & ((1 << len(self.od)) - 1)"),
 ("c12_seqno_reset", "C12", "canopen/sdo/client.py", "        logger.debug(\"Server requested a block size of %d\", blksize)\n        self._blksize = blksize\n        self._seqno = 0", "        logger.debug(\"Server requested a block size of %d\", blksize)\n        self._blksize = max(blksize, 2)\n        self._seqno = 0"),
 ("c16_cb_twice", "C16", "canopen/emcy.py", "        for callback in self.callbacks:\n            callback(entry)", "        for callback in self.callbacks:\n            callback(entry)\n            if len(self.log) == 3: callback(entry)"),
]

BASE = "cd {d} && /venv/bin/python -m pytest -q -x -p no:cacheprovider --timeout=900 2>&1 | tail -3"
def run(m):
    mid, prop, f, old, new = m
    d = tempfile.mkdtemp(prefix="canopen-mut-", dir="/var/tmp")
    try:
        shutil.copytree("/repo", d, dirs_exist_ok=True, ignore=shutil.ignore_patterns(".git", "__pycache__", "*.egg-info"))
        p = os.path.join(d, f); s = open(p).read()
        if s.count(old) != 1: return mid, prop, "PATCH-MISMATCH(%d)" % s.count(old)
        open(p, "w").write(s.replace(old, new))
        r = subprocess.run(BASE.format(d=d), shell=True, capture_output=True, text=True, env=dict(os.environ, PYTHONDONTWRITEBYTECODE="1"))
        tail = r.stdout.strip().splitlines()[-1] if r.stdout.strip() else r.stderr[-200:]
        return mid, prop, tail
    finally:
        shutil.rmtree(d, ignore_errors=True)
if __name__ == "__main__":
    jobs = int(sys.argv[1]) if len(sys.argv) > 1 else 8
    with cf.ThreadPoolExecutor(jobs) as ex:
        for mid, prop, tail in ex.map(run, M):
            print(f"{prop:8s} {mid:34s} {tail}")
